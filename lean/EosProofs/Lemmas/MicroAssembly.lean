import EosProofs.Lemmas.MicroSettle
import EosProofs.Lemmas.MicroLegal
/-! Assembly of C01's layer 2: the total graph family `worldGraph` of the message-level model (override
nodes are not dependencies: the real code never caches overridden attributes) with its `Ties`; `StaticAt`
from the crisp "no calculation divides by zero" (`ErrorFree`); and the settled state's from-scratch values
are the entries of the specification's table `World.evalAll`. -/
namespace Eos.Micro
open Eos.World Eos.Calc Eos.DepCache Eos.Machine Eos.Micro.L

variable {u : Universe} {immune limited : List Int} {pen : Nat → Rat}

/-! ## 1. The graph family -/

instance (cfg : Config) : Decidable (UniqueIds cfg) :=
  inferInstanceAs (Decidable (cfg.items.map (·.id)).Nodup)

/-- Dependencies kept by `worldGraph`: the valued ones where item ids are unique (every state an invariant
`MInv` speaks about), those with metadata elsewhere (so that the family is total). -/
def worldKeep (u : Universe) (cfg : Config) (m : Node) : Bool :=
  if UniqueIds cfg then valued u cfg m else (attrMeta? u m.2).isSome

/-- The dependency graphs of the message-level model, for every configuration and dynamic state. -/
def worldGraph (u : Universe) (immune limited : List Int) (pen : Nat → Rat) (hwf : rankWF u = true)
    (c : Config × Dyn) : Graph Node Rat :=
  if h : UniqueIds c.1 then graphOfV u immune limited pen hwf c h else graphOf u immune limited pen hwf c

theorem worldGraph_ties (hwf : rankWF u = true) :
    Ties u immune limited pen (worldKeep u) (worldGraph u immune limited pen hwf) where
  hdeps := by
    intro cfg d n
    unfold worldGraph
    by_cases h : UniqueIds cfg
    · have hk : worldKeep u cfg = valued u cfg := funext fun m => by simp [worldKeep, h]
      rw [dif_pos h, hk]; rfl
    · have hk : worldKeep u cfg = fun m => (attrMeta? u m.2).isSome := funext fun m => by simp [worldKeep, h]
      rw [dif_neg h, hk]; rfl
  heval := by
    intro cfg d n f
    unfold worldGraph
    by_cases h : UniqueIds cfg
    · rw [dif_pos h]; rfl
    · rw [dif_neg h]; rfl

/-- The from-scratch values do not depend on which of the two dependency lists is used. -/
theorem spec_worldGraph (hwf : rankWF u = true) (c : Config × Dyn) :
    spec (worldGraph u immune limited pen hwf c) = spec (graphOf u immune limited pen hwf c) := by
  funext n
  unfold worldGraph
  by_cases h : UniqueIds c.1
  · rw [dif_pos h]; exact spec_graphOfV immune limited pen hwf c h n
  · rw [dif_neg h]

/-! ## 2. `StaticAt` from "no calculation divides by zero" -/

/-- No attribute calculation of state `(cfg, d)` ends in a division by zero (the "non-zero divisors" of the
property's quantifier): with the from-scratch values of the other nodes as inputs, `valueOfD` is never
`divZero`. -/
def ErrorFree (u : Universe) (immune limited : List Int) (pen : Nat → Rat) (W : Config × Dyn → Graph Node Rat)
    (cfg : Config) (d : Dyn) : Prop :=
  ∀ x ∈ cfg.items, ∀ am ∈ u.attrs,
    valueOfD u cfg d immune limited pen (readerOf u (spec (W (cfg, d)))) x am ≠ .divZero

section reader
variable {cfg : Config} {rd : Reader}

/-- With a reader that never answers with an error the gathering succeeds. -/
theorem gatherD_ok_of_reader (hrd : ∀ y a, rd y a = .absent ∨ ∃ v, rd y a = .ok v) (d : Dyn)
    (immune : List Int) (x : Item) (tx : ItemType) (attr : Int) :
    ∃ l, gatherD u cfg d immune rd x tx attr = .ok l := by
  rw [gatherD_eq_fold, foldlM_stepS]
  cases h : errsOf (specOut cfg rd x (immuneOf u d immune)) (specsOn u cfg d x tx attr) with
  | nil => exact ⟨_, rfl⟩
  | cons w ws =>
    obtain ⟨s, _, hs⟩ := mem_errsOf (h ▸ List.mem_cons_self)
    obtain ⟨hw, y, a, hya⟩ := specOut_err hs
    rcases hrd y a with h' | ⟨v, h'⟩ <;> rw [h'] at hya <;> rcases hw with hw | hw <;> rw [hw] at hya <;> cases hya

/-- ... and the value is a number exactly when the node is statically present, unless `calculate` divides
by zero. -/
theorem valueOfD_reader (hrd : ∀ y a, rd y a = .absent ∨ ∃ v, rd y a = .ok v) (d : Dyn)
    (immune limited : List Int) (pen : Nat → Rat) (x : Item) (am : AttrMeta) :
    valueOfD u cfg d immune limited pen rd x am = .divZero ∨
    ((∃ v, valueOfD u cfg d immune limited pen rd x am = .ok v) ∧
      (if x.kind == .skill && am.id == 280 then x.level.isSome else
        match typeOf? u d x with
        | none => false
        | some tx => (baseOf tx am).isSome) = true) ∨
    (valueOfD u cfg d immune limited pen rd x am = .absent ∧
      (if x.kind == .skill && am.id == 280 then x.level.isSome else
        match typeOf? u d x with
        | none => false
        | some tx => (baseOf tx am).isSome) = false) := by
  unfold valueOfD
  split
  · cases x.level <;> simp
  · cases typeOf? u d x with
    | none => simp
    | some tx =>
      dsimp only
      cases baseOf tx am with
      | none => simp
      | some b =>
        obtain ⟨l, hl⟩ := gatherD_ok_of_reader (u := u) (cfg := cfg) hrd d immune x tx am.id
        simp only [hl, Option.isSome_some]
        have fin : ∀ (cap : Option Rat) (lim : Bool),
            (match calculate pen am.stackable am.hig b l cap lim with
              | .ok v => Val.ok v
              | .error _ => Val.divZero) = .divZero ∨
            (∃ v, (match calculate pen am.stackable am.hig b l cap lim with
              | .ok v => Val.ok v
              | .error _ => Val.divZero) = .ok v) := by
          intro cap lim
          cases calculate pen am.stackable am.hig b l cap lim with
          | ok v => exact Or.inr ⟨v, rfl⟩
          | error e => exact Or.inl rfl
        cases am.maxAttr with
        | none => simp; exact fin none _
        | some mx =>
          rcases hrd x mx with h | ⟨v, h⟩
          · simp [h]; exact fin none _
          · simp [h]; exact fin (some v) _

end reader

/-- `ErrorFree` gives `StaticAt`: a node has a from-scratch value exactly when it is statically present
(`readerOf` never yields `notWF` or `divZero`, so the only other way to be without a value is a division by
zero inside `calculate`). For any graph family tied to the model. -/
theorem staticAt_of_errorFree {keep : Config → Node → Bool} {W : Config × Dyn → Graph Node Rat}
    (T : Ties u immune limited pen keep W) {cfg : Config} {d : Dyn}
    (h : ErrorFree u immune limited pen W cfg d) : StaticAt u W cfg d := by
  intro n
  rw [spec_unfold, T.heval]
  unfold evalD present
  cases hx : item? cfg n.1 with
  | none => simp
  | some x =>
    cases ham : attrMeta? u n.2 with
    | none => simp
    | some am =>
      dsimp only
      have hne := h x (item?_mem hx) am (attrMeta?_mem ham)
      rcases valueOfD_reader (u := u) (cfg := cfg) (readerOf_ok_or_absent (spec (W (cfg, d)))) d immune limited
        pen x am with h0 | ⟨⟨v, hv⟩, hp⟩ | ⟨ha, hp⟩
      · exact absurd h0 hne
      · rw [hv]; exact ⟨fun _ => hp, fun _ => by simp [valToOption]⟩
      · rw [ha]
        refine ⟨fun hc => absurd rfl hc, fun hc => ?_⟩
        exact absurd (hc.symm.trans hp) (by decide)

/-! ## 3. The settled state's from-scratch values are the entries of the specification's table -/

section table
variable {cfg : Config}

/-- One round of `World.evalAll`: the rows of attribute `am`, computed from the table so far. -/
def tblStep (u : Universe) (cfg : Config) (immune limited : List Int) (pen : Nat → Rat) (t : Table)
    (am : AttrMeta) : Table :=
  t ++ cfg.items.map fun x => ((x.id, am.id), valueOf u cfg immune limited pen (readDep u t) x am)

theorem evalAll_eq_foldl :
    evalAll u cfg immune limited pen = u.attrs.foldl (tblStep u cfg immune limited pen) [] := rfl

/-- The table only grows, by rows of the attributes processed. -/
theorem tbl_prefix (l : List AttrMeta) (t0 : Table) :
    ∃ rest, l.foldl (tblStep u cfg immune limited pen) t0 = t0 ++ rest ∧ ∀ e ∈ rest, e.1.2 ∈ l.map (·.id) := by
  induction l generalizing t0 with
  | nil => exact ⟨[], by simp, fun _ h => by cases h⟩
  | cons am l ih =>
    obtain ⟨rest, h1, h2⟩ := ih (tblStep u cfg immune limited pen t0 am)
    refine ⟨(cfg.items.map fun x => ((x.id, am.id), valueOf u cfg immune limited pen (readDep u t0) x am)) ++ rest,
      by rw [List.foldl_cons, h1]; unfold tblStep; rw [List.append_assoc], fun e he => ?_⟩
    rcases List.mem_append.1 he with he | he
    · obtain ⟨x, _, rfl⟩ := List.mem_map.1 he
      exact List.mem_cons_self
    · exact List.mem_cons_of_mem _ (h2 e he)

/-- Where an entry of the table comes from. -/
theorem tbl_mem (l : List AttrMeta) (t0 : Table) {e : (Nat × Int) × Val}
    (he : e ∈ l.foldl (tblStep u cfg immune limited pen) t0) :
    e ∈ t0 ∨ ∃ p1 amb p2, l = p1 ++ amb :: p2 ∧ ∃ y ∈ cfg.items,
      e = ((y.id, amb.id),
        valueOf u cfg immune limited pen (readDep u (p1.foldl (tblStep u cfg immune limited pen) t0)) y amb) := by
  induction l generalizing t0 with
  | nil => exact Or.inl he
  | cons am l ih =>
    rw [List.foldl_cons] at he
    rcases ih _ he with h | ⟨p1, amb, p2, hl, y, hy, rfl⟩
    · rcases List.mem_append.1 h with h | h
      · exact Or.inl h
      · obtain ⟨y, hy, rfl⟩ := List.mem_map.1 h
        exact Or.inr ⟨[], am, l, rfl, y, hy, rfl⟩
    · exact Or.inr ⟨am :: p1, amb, p2, by rw [hl]; rfl, y, hy, rfl⟩

theorem get_append_of_some {t r : Table} {i : Nat} {a : Int} {v : Val} (h : t.get i a = some v) :
    (t ++ r).get i a = some v := by
  unfold Table.get at h ⊢
  obtain ⟨e, he, rfl⟩ := Option.map_eq_some_iff.1 h
  rw [List.find?_append, he]; rfl

theorem get_append_of_none {t r : Table} {i : Nat} {a : Int} (h : ∀ e ∈ t, e.1 ≠ (i, a)) :
    (t ++ r).get i a = r.get i a := by
  unfold Table.get
  rw [List.find?_append, List.find?_eq_none.2 (fun e he => by simpa using h e he)]; rfl

theorem get_eq_none {t : Table} {i : Nat} {a : Int} (h : ∀ e ∈ t, e.1 ≠ (i, a)) : t.get i a = none := by
  unfold Table.get
  rw [List.find?_eq_none.2 (fun e he => by simpa using h e he)]; rfl

/-- With unique item ids the row of `x` is found under `x`'s id. -/
theorem rows_get (hc : UniqueIds cfg) {x : Item} (hx : x ∈ cfg.items) (k : Int) (F : Item → Val) :
    Table.get (cfg.items.map fun y => ((y.id, k), F y)) x.id k = some (F x) := by
  unfold Table.get
  rw [List.find?_map]
  have hp : ((fun e : (Nat × Int) × Val => e.1 == (x.id, k)) ∘ fun y : Item => ((y.id, k), F y)) =
      fun y => y.id == x.id := by
    funext y; simp
  rw [hp, find?_id_of_mem hc hx]; rfl

/-- With unique attribute and item ids: the entry of `(x, am)` is `valueOf` over the table of the
attributes listed before `am`. -/
theorem tbl_get (hc : UniqueIds cfg) {l pre post : List AttrMeta} {am : AttrMeta} (hl : l = pre ++ am :: post)
    (hn : (l.map (·.id)).Nodup) {x : Item} (hx : x ∈ cfg.items) :
    (l.foldl (tblStep u cfg immune limited pen) []).get x.id am.id =
      some (valueOf u cfg immune limited pen (readDep u (pre.foldl (tblStep u cfg immune limited pen) [])) x am) := by
  subst hl
  rw [List.foldl_append, List.foldl_cons]
  obtain ⟨r0, h0, h0'⟩ := tbl_prefix (u := u) (cfg := cfg) (immune := immune) (limited := limited) (pen := pen) pre []
  obtain ⟨rest, h1, _⟩ := tbl_prefix (u := u) (cfg := cfg) (immune := immune) (limited := limited) (pen := pen) post
    (tblStep u cfg immune limited pen (pre.foldl (tblStep u cfg immune limited pen) []) am)
  rw [h1]
  have hnone : ∀ e ∈ pre.foldl (tblStep u cfg immune limited pen) [], e.1 ≠ (x.id, am.id) := by
    intro e he heq
    rw [h0, List.nil_append] at he
    have hmem := h0' e he
    rw [heq] at hmem
    rw [List.map_append, List.map_cons, List.nodup_append] at hn
    exact hn.2.2 _ hmem _ List.mem_cons_self rfl
  show Table.get ((_ ++ List.map _ cfg.items) ++ rest) _ _ = _
  rw [List.append_assoc, get_append_of_none hnone, get_append_of_some (rows_get hc hx am.id _)]

/-- The table of a prefix of the attribute list is a prefix of the table. -/
theorem tbl_sub (pre post : List AttrMeta) :
    ∃ rest, (pre ++ post).foldl (tblStep u cfg immune limited pen) [] =
      pre.foldl (tblStep u cfg immune limited pen) [] ++ rest := by
  rw [List.foldl_append]
  obtain ⟨rest, h, _⟩ := tbl_prefix (u := u) (cfg := cfg) (immune := immune) (limited := limited) (pen := pen) post
    (pre.foldl (tblStep u cfg immune limited pen) [])
  exact ⟨rest, h⟩

theorem find?_of_nodup_map {α β : Type} [DecidableEq β] (f : α → β) :
    ∀ {l : List α}, (l.map f).Nodup → ∀ {y : α}, y ∈ l → l.find? (fun z => f z == f y) = some y
  | [], _, _, hy => by cases hy
  | a :: l, hc, y, hy => by
    rw [List.map_cons, List.nodup_cons] at hc
    rcases List.mem_cons.1 hy with rfl | hy'
    · simp
    · have hne : f a ≠ f y := fun h => hc.1 (h ▸ List.mem_map.2 ⟨y, hy', rfl⟩)
      rw [List.find?_cons_of_neg (by simpa using hne)]
      exact find?_of_nodup_map f hc.2 hy'

theorem attrMeta?_of_mem (hun : UniqueAttrs u) {am : AttrMeta} (ham : am ∈ u.attrs) :
    attrMeta? u am.id = some am :=
  find?_of_nodup_map (fun a : AttrMeta => a.id) (show (u.attrs.map (·.id)).Nodup from hun) ham

/-- From-scratch value of a settled node with metadata: `valueOfD` under the reader of the from-scratch
values. -/
theorem spec_graphOf_node (hwf : rankWF u = true) {d : Dyn} {n : Node} {x : Item} {am : AttrMeta}
    (hx : item? cfg n.1 = some x) (ham : attrMeta? u n.2 = some am) :
    spec (graphOf u immune limited pen hwf (cfg, d)) n =
      valToOption (valueOfD u cfg d immune limited pen
        (readerOf u (spec (graphOf u immune limited pen hwf (cfg, d)))) x am) := by
  rw [spec_unfold]
  show evalD u cfg d immune limited pen n _ = _
  unfold evalD; rw [hx, ham]

/-- Core induction along the rank order, for any dynamic state `d` whose calculation `valueOfD` is the
specification's `valueOf` under the readers of the table's prefixes (`hval`).  `hz`: no division by zero,
either as "the table has no `divZero` entry" or as "no calculation of the state yields `divZero`". -/
theorem settled_core_gen {d : Dyn} (hwf : rankWF u = true) (hun : UniqueAttrs u) (hc : UniqueIds cfg)
    (hval : ∀ pre am post, u.attrs = pre ++ am :: post →
      (∀ y a, readDep u (pre.foldl (tblStep u cfg immune limited pen) []) y a ≠ .divZero) → ∀ x ∈ cfg.items,
      valueOfD u cfg d immune limited pen (readDep u (pre.foldl (tblStep u cfg immune limited pen) [])) x am =
        valueOf u cfg immune limited pen (readDep u (pre.foldl (tblStep u cfg immune limited pen) [])) x am)
    (hz : (∀ entry ∈ evalAll u cfg immune limited pen, entry.2 ≠ .divZero) ∨
      (∀ x ∈ cfg.items, ∀ am ∈ u.attrs, valueOfD u cfg (d) immune limited pen
        (readerOf u (spec (graphOf u immune limited pen hwf (cfg, d)))) x am ≠ .divZero)) :
    ∀ (k : Nat) (pre : List AttrMeta) (am : AttrMeta) (post : List AttrMeta), u.attrs = pre ++ am :: post →
      pre.length = k → ∀ x ∈ cfg.items,
      valueOf u cfg immune limited pen (readDep u (pre.foldl (tblStep u cfg immune limited pen) [])) x am =
        valueOfD u cfg (d) immune limited pen
          (readerOf u (spec (graphOf u immune limited pen hwf (cfg, d)))) x am ∧
      valueOf u cfg immune limited pen (readDep u (pre.foldl (tblStep u cfg immune limited pen) [])) x am ≠
        .divZero := by
  intro k
  induction k using Nat.strongRecOn with
  | _ k ih =>
    intro pre am post hsplit hk x hx
    have hun' : (u.attrs.map (·.id)).Nodup := hun
    have hpren : (pre.map (·.id)).Nodup := by
      rw [hsplit, List.map_append, List.nodup_append] at hun'; exact hun'.1
    -- entries of the table of `pre`, through the induction hypothesis
    have hpre : ∀ p1 amb p2, pre = p1 ++ amb :: p2 → ∀ y ∈ cfg.items,
        valueOf u cfg immune limited pen (readDep u (p1.foldl (tblStep u cfg immune limited pen) [])) y amb =
          valueOfD u cfg (d) immune limited pen
            (readerOf u (spec (graphOf u immune limited pen hwf (cfg, d)))) y amb ∧
        valueOf u cfg immune limited pen (readDep u (p1.foldl (tblStep u cfg immune limited pen) [])) y amb ≠
          .divZero := by
      intro p1 amb p2 hp y hy
      refine ih p1.length ?_ p1 amb (p2 ++ am :: post) ?_ rfl y hy
      · rw [← hk, hp]; simp
      · rw [hsplit, hp]; simp
    have hnd : ∀ e ∈ pre.foldl (tblStep u cfg immune limited pen) [], e.2 ≠ .divZero := by
      intro e he
      rcases tbl_mem pre [] he with h | ⟨p1, amb, p2, hp, y, hy, rfl⟩
      · cases h
      · exact (hpre p1 amb p2 hp y hy).2
    have hrd : ∀ y a, readDep u (pre.foldl (tblStep u cfg immune limited pen) []) y a ≠ .divZero := by
      intro y a
      unfold readDep
      split
      · cases y.level <;> simp
      · cases hg : (pre.foldl (tblStep u cfg immune limited pen) []).get y.id a with
        | some v => obtain ⟨e, he, rfl⟩ := get_mem hg; exact hnd e he
        | none => dsimp only; split <;> simp
    -- the two readers agree wherever the calculation of `(x, am)` reads
    have hmeta : attrMeta? u am.id = some am :=
      attrMeta?_of_mem hun (by rw [hsplit]; exact List.mem_append_right _ List.mem_cons_self)
    have agree : ∀ y ∈ cfg.items, ∀ b ∈ readable u am,
        readDep u (pre.foldl (tblStep u cfg immune limited pen) []) y b =
          readerOf u (spec (graphOf u immune limited pen hwf (cfg, d))) y b := by
      intro y hy b hb'
      by_cases hov : (y.kind == .skill && b == 280) = true
      · unfold readDep readerOf; rw [if_pos hov, if_pos hov]; rfl
      · cases hmb : attrMeta? u b with
        | none =>
          have hget : (pre.foldl (tblStep u cfg immune limited pen) []).get y.id b = none := by
            refine get_eq_none fun e he heq => ?_
            obtain ⟨r0, h0, h0'⟩ := tbl_prefix (u := u) (cfg := cfg) (immune := immune) (limited := limited)
              (pen := pen) pre []
            rw [h0, List.nil_append] at he
            have := h0' e he
            rw [heq] at this
            obtain ⟨amb, hamb, hid⟩ := List.mem_map.1 this
            have : attrMeta? u amb.id = some amb :=
              attrMeta?_of_mem hun (by rw [hsplit]; exact List.mem_append_left _ hamb)
            rw [show amb.id = b from hid, hmb] at this; cases this
          unfold readDep readerOf
          rw [if_neg hov, if_neg hov, hget, hmb]; rfl
        | some amb =>
          have hbpre : b ∈ pre.map (·.id) :=
            (rankWF_iff u).1 hwf pre am post hsplit b hb' (by rw [hmb]; rfl)
          obtain ⟨amb', hamb', hid⟩ := List.mem_map.1 hbpre
          have hsame : amb' = amb := by
            have := attrMeta?_of_mem hun (show amb' ∈ u.attrs by rw [hsplit]; exact List.mem_append_left _ hamb')
            rw [show amb'.id = b from hid, hmb] at this; exact (Option.some.inj this).symm
          subst hsame
          obtain ⟨p1, p2, hp⟩ := List.append_of_mem hamb'
          obtain ⟨heq, hnz⟩ := hpre p1 amb' p2 hp y hy
          have hget := tbl_get (u := u) (immune := immune) (limited := limited) (pen := pen) hc hp hpren hy
          have hnode := spec_graphOf_node (immune := immune) (limited := limited) (pen := pen) hwf
            (d := d) (n := (y.id, b)) (item?_of_mem hc hy) hmb
          rw [hid] at hget
          have hnn : ¬ ((attrMeta? u b).isNone = true) := by rw [hmb]; simp
          unfold readDep readerOf
          rw [if_neg hov, if_neg hov, hget, if_neg hnn, hnode]
          dsimp only
          rw [heq]
          rw [heq] at hnz
          rcases valueOfD_reader (u := u) (cfg := cfg)
            (readerOf_ok_or_absent (spec (graphOf u immune limited pen hwf (cfg, d))))
            (d) immune limited pen y amb' with h0 | ⟨⟨v, hv⟩, _⟩ | ⟨ha, _⟩
          · exact absurd h0 hnz
          · rw [hv]; rfl
          · rw [ha]; rfl
    have hxid := item?_of_mem hc hx
    have eq1 := hval pre am post hsplit hrd x hx
    have eq2 : valueOfD u cfg (d) immune limited pen
        (readDep u (pre.foldl (tblStep u cfg immune limited pen) [])) x am =
        valueOfD u cfg (d) immune limited pen
          (readerOf u (spec (graphOf u immune limited pen hwf (cfg, d)))) x am := by
      refine valueOfD_congr fun hs tx ht => ?_
      have hread : ∀ m, m ∈ deps u cfg (d) (x.id, am.id) → m.2 ∈ readable u am := by
        intro m hm
        obtain ⟨am', ham', hr⟩ := deps_readable hm
        rw [show attrMeta? u (x.id, am.id).2 = some am from hmeta] at ham'
        cases ham'; exact hr
      have hdep := @mem_deps_iff u cfg (d) (x.id, am.id)
      refine ⟨fun s hsp => ⟨agree s.a (specsOn_mem hsp).1 _ (hread (s.a.id, s.m.srcAttr) ?_),
        fun c r hr => agree c ?_ r (hread (c.id, r) ?_)⟩, fun mx hmx => agree x hx mx (hread (x.id, mx) ?_)⟩
      · exact (hdep (n' := _) hxid hmeta hs ht).2 (Or.inl ⟨s, hsp, Or.inl rfl⟩)
      · exact (carrierOf_mem (cfg := cfg) (x := x) (resistRead_some hr).2.2).elim (fun e => e ▸ hx) id
      · exact (hdep (n' := _) hxid hmeta hs ht).2 (Or.inl ⟨s, hsp, Or.inr ⟨c, r, hr, rfl⟩⟩)
      · exact (hdep (n' := _) hxid hmeta hs ht).2 (Or.inr ⟨mx, hmx, rfl⟩)
    have heq := eq1.symm.trans eq2
    refine ⟨heq, ?_⟩
    rcases hz with hz | hz
    · have hget := tbl_get (u := u) (immune := immune) (limited := limited) (pen := pen) hc hsplit hun' hx
      obtain ⟨e, he, hv⟩ := get_mem hget
      rw [← hv]; exact hz e he
    · rw [heq]; exact hz x hx am (by rw [hsplit]; exact List.mem_append_right _ List.mem_cons_self)

/-- Core induction for the specification's derived state of a universe without buff effects. -/
theorem settled_core (hb : ∀ e ∈ u.effects, e.isBuff = false) (hwf : rankWF u = true) (hun : UniqueAttrs u)
    (hc : UniqueIds cfg)
    (hz : (∀ entry ∈ evalAll u cfg immune limited pen, entry.2 ≠ .divZero) ∨
      (∀ x ∈ cfg.items, ∀ am ∈ u.attrs, valueOfD u cfg (derivedDyn u cfg) immune limited pen
        (readerOf u (spec (graphOf u immune limited pen hwf (cfg, derivedDyn u cfg)))) x am ≠ .divZero)) :
    ∀ (k : Nat) (pre : List AttrMeta) (am : AttrMeta) (post : List AttrMeta), u.attrs = pre ++ am :: post →
      pre.length = k → ∀ x ∈ cfg.items,
      valueOf u cfg immune limited pen (readDep u (pre.foldl (tblStep u cfg immune limited pen) [])) x am =
        valueOfD u cfg (derivedDyn u cfg) immune limited pen
          (readerOf u (spec (graphOf u immune limited pen hwf (cfg, derivedDyn u cfg)))) x am ∧
      valueOf u cfg immune limited pen (readDep u (pre.foldl (tblStep u cfg immune limited pen) [])) x am ≠
        .divZero :=
  settled_core_gen hwf hun hc
    (fun pre am _ _ hrd _ hx => valueOfD_derived_eq hb hc immune limited pen
      (readDep u (pre.foldl (tblStep u cfg immune limited pen) [])) (fun y a _ _ h _ => hrd y a h) hx am) hz

/-- What a public read of the table returns for an attribute with metadata. -/
theorem read_evalAll (hun : UniqueAttrs u) (hc : UniqueIds cfg) {pre post : List AttrMeta} {am : AttrMeta}
    (hsplit : u.attrs = pre ++ am :: post) {x : Item} (hx : x ∈ cfg.items) :
    read (evalAll u cfg immune limited pen) x am.id =
      valueOf u cfg immune limited pen (readDep u (pre.foldl (tblStep u cfg immune limited pen) [])) x am := by
  unfold World.read
  split
  · rename_i hov
    rw [valueOf_eq, if_pos hov]; rfl
  · rw [evalAll_eq_foldl, tbl_get hc hsplit hun hx]; rfl

/-- A dynamic state whose calculation is the specification's under the readers of the table's prefixes
(`hval`) meets the table. -/
theorem settled_aux_gen {d : Dyn} (hwf : rankWF u = true) (hun : UniqueAttrs u) (hc : UniqueIds cfg)
    (hval : ∀ pre am post, u.attrs = pre ++ am :: post →
      (∀ y a, readDep u (pre.foldl (tblStep u cfg immune limited pen) []) y a ≠ .divZero) → ∀ x ∈ cfg.items,
      valueOfD u cfg d immune limited pen (readDep u (pre.foldl (tblStep u cfg immune limited pen) [])) x am =
        valueOf u cfg immune limited pen (readDep u (pre.foldl (tblStep u cfg immune limited pen) [])) x am)
    (hz : (∀ entry ∈ evalAll u cfg immune limited pen, entry.2 ≠ .divZero) ∨
      ErrorFree u immune limited pen (worldGraph u immune limited pen hwf) cfg (d))
    {x : Item} (hx : x ∈ cfg.items) {am : AttrMeta} (ham : am ∈ u.attrs) :
    spec (worldGraph u immune limited pen hwf (cfg, d)) (x.id, am.id) =
      valToOption (read (evalAll u cfg immune limited pen) x am.id) ∧
    read (evalAll u cfg immune limited pen) x am.id ≠ .divZero := by
  obtain ⟨pre, post, hsplit⟩ := List.append_of_mem ham
  have hz' : (∀ entry ∈ evalAll u cfg immune limited pen, entry.2 ≠ .divZero) ∨
      (∀ x ∈ cfg.items, ∀ am ∈ u.attrs, valueOfD u cfg (d) immune limited pen
        (readerOf u (spec (graphOf u immune limited pen hwf (cfg, d)))) x am ≠ .divZero) := by
    rcases hz with hz | hz
    · exact Or.inl hz
    · right; intro y hy amy hamy
      have := hz y hy amy hamy
      rwa [spec_worldGraph] at this
  obtain ⟨heq, hnz⟩ := settled_core_gen hwf hun hc hval hz' pre.length pre am post hsplit rfl x hx
  rw [read_evalAll hun hc hsplit hx, spec_worldGraph,
    spec_graphOf_node hwf (n := (x.id, am.id)) (item?_of_mem hc hx) (attrMeta?_of_mem hun ham), heq]
  exact ⟨rfl, heq ▸ hnz⟩

theorem settled_aux (hb : ∀ e ∈ u.effects, e.isBuff = false) (hwf : rankWF u = true) (hun : UniqueAttrs u)
    (hc : UniqueIds cfg)
    (hz : (∀ entry ∈ evalAll u cfg immune limited pen, entry.2 ≠ .divZero) ∨
      ErrorFree u immune limited pen (worldGraph u immune limited pen hwf) cfg (derivedDyn u cfg))
    {x : Item} (hx : x ∈ cfg.items) {am : AttrMeta} (ham : am ∈ u.attrs) :
    spec (worldGraph u immune limited pen hwf (cfg, derivedDyn u cfg)) (x.id, am.id) =
      valToOption (read (evalAll u cfg immune limited pen) x am.id) ∧
    read (evalAll u cfg immune limited pen) x am.id ≠ .divZero :=
  settled_aux_gen hwf hun hc
    (fun pre am _ _ hrd _ hx => valueOfD_derived_eq hb hc immune limited pen
      (readDep u (pre.foldl (tblStep u cfg immune limited pen) [])) (fun y a _ _ h _ => hrd y a h) hx am) hz hx ham

/-- **Settled states meet the table.**  Universe without buff effects, rank-well-formed, unique attribute
ids; configuration with unique item ids; no `divZero` entry in the table.  For every configured item and
every attribute with metadata the from-scratch value of the settled message-level state is what a public
read of the specification's table returns (for a skill's level both are the level). -/
theorem settled_spec_eq_table (hb : ∀ e ∈ u.effects, e.isBuff = false) (hwf : rankWF u = true)
    (hun : UniqueAttrs u) (hc : UniqueIds cfg)
    (hnz : ∀ entry ∈ evalAll u cfg immune limited pen, entry.2 ≠ .divZero)
    {x : Item} (hx : x ∈ cfg.items) {am : AttrMeta} (ham : am ∈ u.attrs) :
    spec (worldGraph u immune limited pen hwf (cfg, derivedDyn u cfg)) (x.id, am.id) =
      valToOption (read (evalAll u cfg immune limited pen) x am.id) :=
  (settled_aux hb hwf hun hc (Or.inl hnz) hx ham).1

/-- The same from `ErrorFree` of the settled state, which also excludes `divZero` from the table's reads. -/
theorem settled_spec_eq_table_of_errorFree (hb : ∀ e ∈ u.effects, e.isBuff = false) (hwf : rankWF u = true)
    (hun : UniqueAttrs u) (hc : UniqueIds cfg)
    (hef : ErrorFree u immune limited pen (worldGraph u immune limited pen hwf) cfg (derivedDyn u cfg))
    {x : Item} (hx : x ∈ cfg.items) {am : AttrMeta} (ham : am ∈ u.attrs) :
    spec (worldGraph u immune limited pen hwf (cfg, derivedDyn u cfg)) (x.id, am.id) =
      valToOption (read (evalAll u cfg immune limited pen) x am.id) ∧
    read (evalAll u cfg immune limited pen) x am.id ≠ .divZero :=
  settled_aux hb hwf hun hc (Or.inr hef) hx ham

/-- An attribute without metadata has no from-scratch value in any state, and the table's read is absent —
except for a skill's level, which `read` answers from the item even then. -/
theorem spec_no_meta (hwf : rankWF u = true) (c : Config × Dyn) {n : Node} (h : attrMeta? u n.2 = none) :
    spec (worldGraph u immune limited pen hwf c) n = none := by
  rw [spec_worldGraph, spec_unfold]
  show evalD u c.1 c.2 immune limited pen n _ = none
  unfold evalD; rw [h]; cases item? c.1 n.1 <;> rfl

theorem read_no_meta {x : Item} {a : Int} (h : attrMeta? u a = none) (hov : ¬ (x.kind = .skill ∧ a = 280)) :
    read (evalAll u cfg immune limited pen) x a = .absent := by
  unfold World.read
  rw [if_neg (by simpa using hov), get_eq_none]; · rfl
  intro e he heq
  obtain ⟨rest, h0, h0'⟩ := tbl_prefix (u := u) (cfg := cfg) (immune := immune) (limited := limited)
    (pen := pen) u.attrs []
  rw [evalAll_eq_foldl, h0, List.nil_append] at he
  have := h0' e he
  rw [heq] at this
  obtain ⟨amb, hamb, hid⟩ := List.mem_map.1 this
  have hf := List.find?_eq_none.1 h amb hamb
  simp [show amb.id = a from hid] at hf

end table

/-! ## 4. Histories whose `StaticAround` side conditions are discharged by `ErrorFree` -/

section histories
variable {keep : Config → Node → Bool} {W : Config × Dyn → Graph Node Rat}

/-- Side conditions of an event with "no calculation divides by zero, before and after" in the place of
`StaticAround`. -/
def WStepOKE (u : Universe) (immune limited : List Int) (pen : Nat → Rat) (W : Config × Dyn → Graph Node Rat)
    (s : MState) : WStep → Prop
  | .read S => Legal W (toState s) (.read S)
  | .micro st => StepOK W s st ∧ (usesStatic st = true →
      ErrorFree u immune limited pen W s.cfg s.dyn ∧
      ErrorFree u immune limited pen W (mstep u s st).cfg (mstep u s st).dyn)
  | .relevel cfg' i attr => RelevelOK u W s cfg' i attr

def WRunOKE (u : Universe) (immune limited : List Int) (pen : Nat → Rat) (W : Config × Dyn → Graph Node Rat)
    (s : MState) : List WStep → Prop
  | [] => True
  | st :: rest => WStepOKE u immune limited pen W s st ∧ WRunOKE u immune limited pen W (wstep u W s st) rest

theorem wstepOK_of_errorFree (T : Ties u immune limited pen keep W) {s : MState} {st : WStep}
    (h : WStepOKE u immune limited pen W s st) : WStepOK u W s st := by
  cases st with
  | read S => exact h
  | micro st => exact ⟨h.1, fun hs => ⟨staticAt_of_errorFree T (h.2 hs).1, staticAt_of_errorFree T (h.2 hs).2⟩⟩
  | relevel cfg' i attr => exact h

theorem wrunOK_of_errorFree (T : Ties u immune limited pen keep W) :
    ∀ (steps : List WStep) (s : MState), WRunOKE u immune limited pen W s steps → WRunOK u W s steps
  | [], _, _ => trivial
  | _ :: rest, _, h => ⟨wstepOK_of_errorFree T h.1, wrunOK_of_errorFree T rest _ h.2⟩

end histories

/-! ## Non-vacuity: a history of the two-item world of `Lemmas/MicroSettle.lean`

Both items loaded, nothing running, nothing cached; then `EffectsStarted` for the module's two effects,
`EffectApplied` of each onto the ship, and a public read of the ship's attribute 37 (and what it reads).
The history satisfies `WRunOKE` and ends in the settled state. -/

def settleD0 : Dyn := { loaded := fun i => i == 1 || i == 2, on := fun _ _ => false, tgts := fun _ _ => [] }
def settleS0 : MState := ⟨settleCfg, settleD0, fun _ => none⟩
abbrev settleW : Config × Dyn → Graph Node Rat := worldGraph settleU specImmune specLimited (fun _ => 1) (by decide)
def settleHist : List WStep :=
  [.micro (.start 2 [1000, 1001]), .micro (.apply 2 1000 [1]), .micro (.apply 2 1001 [1]),
   .read fun n => n == (1, 37) || n == (2, 20)]
def settleMod : Item := ⟨2, .moduleMid, 2, 0, 3, none, some 1, none, [(1001, 3)]⟩

theorem settle_item1 : item? settleCfg 1 = some settleShip := rfl
theorem settle_item2 : item? settleCfg 2 = some settleMod := rfl
theorem settle_itemN {i : Nat} (h1 : i ≠ 1) (h2 : i ≠ 2) : item? settleCfg i = none := by
  simp [item?, settleCfg, settleShip]; omega

theorem settle_solsys : ∀ j ∈ [1], ∀ t, item? settleCfg j = some t → t.kind.isSolsys = true := by
  intro j hj t ht
  rw [List.mem_singleton.1 hj, settle_item1] at ht
  cases ht; rfl

/-- The history ends in the settled state of its configuration. -/
theorem settle_hset : (wrun settleU settleW settleS0 settleHist).dyn = derivedDyn settleU settleCfg := by
  show (⟨fun i => i == 1 || i == 2, fun j e => if j = 2 ∧ e ∈ [1000, 1001] then true else false,
    fun j f => if j = 2 ∧ f = 1001 then [1] else if j = 2 ∧ f = 1000 then [1] else [], fun _ _ => []⟩ : Dyn) =
      ⟨_, _, _, _⟩
  congr 1
  · funext i
    by_cases h1 : i = 1
    · subst h1; rfl
    · by_cases h2 : i = 2
      · subst h2; rfl
      · simp [settle_itemN h1 h2, h1, h2]
  · funext j e
    by_cases h1 : j = 1
    · subst h1
      have : runningIds settleU settleCfg settleShip = [] := by decide
      simp [settle_item1, this]
    · by_cases h2 : j = 2
      · subst h2
        have : runningIds settleU settleCfg settleMod = [1000, 1001] := by decide
        simp [settle_item2, this]
      · simp [settle_itemN h1 h2, h2]
  · funext j e
    by_cases h1 : j = 1
    · subst h1
      simp only [settle_item1]
      cases effect? settleU e with
      | none => simp
      | some ef => simp [projectionTargets, settleShip]
    · by_cases h2 : j = 2
      · subst h2
        by_cases e1 : e = 1000
        · subst e1; decide
        · by_cases e2 : e = 1001
          · subst e2; decide
          · have : effect? settleU e = none := by
              simp [effect?, settleU]; omega
            simp [settle_item2, this, e1, e2]
      · simp [settle_itemN h1 h2, h2]

theorem settle_readLegal (s : MState) (hc : s.cfg = settleCfg)
    (hd : s.dyn = (wrun settleU settleW settleS0 settleHist).dyn) :
    Legal settleW (toState s) (.read fun n => n == (1, 37) || n == (2, 20)) := by
  intro n hn m hm _
  have hdeps : ∀ n, (n == ((1 : Nat), (37 : Int)) || n == (2, 20)) = true →
      ∀ m ∈ (settleW (settleCfg, (wrun settleU settleW settleS0 settleHist).dyn)).deps n, m = (2, 20) := by
    intro n hn
    simp only [Bool.or_eq_true, beq_iff_eq] at hn
    rcases hn with rfl | rfl <;> decide +kernel
  have : (toState s).cfg = (settleCfg, (wrun settleU settleW settleS0 settleHist).dyn) := by
    show (s.cfg, s.dyn) = _; rw [hc, hd]
  rw [this] at hm
  left
  rw [hdeps n hn m hm]; rfl

/-- Every event of the history is taken under its side conditions (with `ErrorFree` before and after each
message). -/
theorem settle_runOK : WRunOKE settleU specImmune specLimited (fun _ => 1) settleW settleS0 settleHist := by
  refine ⟨⟨?_, fun _ => ⟨?_, ?_⟩⟩, ⟨settle_solsys, fun _ => ⟨?_, ?_⟩⟩, ⟨settle_solsys, fun _ => ⟨?_, ?_⟩⟩, ?_,
    trivial⟩
  · intro e _; rfl
  all_goals first
    | exact settle_readLegal _ rfl rfl
    | (unfold ErrorFree; decide +kernel)

theorem settle_wf : UniqueAttrs settleU ∧ ResistWF settleU ∧ UniqueIds settleCfg ∧ ChargeWF settleCfg ∧
    TgtKinds settleCfg settleD0 := by
  refine ⟨by unfold UniqueAttrs; decide, ?_, by unfold UniqueIds; decide, ?_, ?_⟩
  · intro e he r hr
    simp only [settleU, List.mem_cons, List.not_mem_nil, or_false] at he
    rcases he with rfl | rfl <;> cases hr
  · intro x hx hk
    simp only [settleCfg, settleShip, List.mem_cons, List.not_mem_nil, or_false] at hx
    rcases hx with rfl | rfl <;> cases hk
  · intro a e t ht
    simp [targetsOf, settleD0] at ht

end Eos.Micro
