import EosProofs.Lemmas.ContainersList
/-! World-level facts of the container model: setter algebra, contents of places after an update, the
ownership invariant I4 and its three generic preservation lemmas (an item enters a place, leaves a place,
a place is emptied).  Core Lean only. -/
namespace Eos.Containers

theorem World.ext {a b : World} (h1 : a.lists = b.lists) (h2 : a.sets = b.sets) (h3 : a.keyed = b.keyed)
    (h4 : a.slots = b.slots) (h5 : a.owner = b.owner) (h6 : a.fitSs = b.fitSs) (h7 : a.ssFits = b.ssFits)
    (h8 : a.fitFl = b.fitFl) (h9 : a.flFits = b.flFits) (h10 : a.dmg = b.dmg) (h11 : a.rah = b.rah) : a = b := by
  cases a; cases b; simp_all

section upd
variable {α β : Type} [DecidableEq α]
@[simp] theorem upd_same (f : α → β) (a : α) (b : β) : upd f a b a = b := by simp [upd]
theorem upd_other (f : α → β) {a x : α} (b : β) (h : x ≠ a) : upd f a b x = f x := by simp [upd, h]
@[simp] theorem upd_upd (f : α → β) (a : α) (b c : β) : upd (upd f a b) a c = upd f a c := by
  funext x; simp [upd]; split <;> rfl
@[simp] theorem upd_self (f : α → β) (a : α) : upd f a (f a) = f := by
  funext x; simp [upd]; intro h; rw [h]
theorem upd_apply (f : α → β) (a x : α) (b : β) : upd f a b x = if x = a then b else f x := rfl
end upd

/-! ### setter algebra (what the roll-back code relies on) -/

@[simp] theorem setList_lists_same (s : World) (f r : Nat) (l : List (Option Nat)) : (s.setList f r l).lists f r = l := by
  simp [World.setList]
theorem setList_lists (s : World) (f r f' r' : Nat) (l : List (Option Nat)) :
    (s.setList f r l).lists f' r' = if f' = f ∧ r' = r then l else s.lists f' r' := rfl
@[simp] theorem setList_setList (s : World) (f r : Nat) (a b : List (Option Nat)) :
    (s.setList f r a).setList f r b = s.setList f r b := by
  apply World.ext <;> try rfl
  funext f' r'; simp only [World.setList]; split <;> rfl
@[simp] theorem setList_self (s : World) (f r : Nat) : s.setList f r (s.lists f r) = s := by
  apply World.ext <;> try rfl
  funext f' r'; simp only [World.setList]; split
  · rename_i h; rw [h.1, h.2]
  · rfl
@[simp] theorem setSet_setSet (s : World) (c : SetId) (a b : List Nat) : (s.setSet c a).setSet c b = s.setSet c b := by
  apply World.ext <;> first | rfl | simp [World.setSet]
@[simp] theorem setSet_self (s : World) (c : SetId) : s.setSet c (s.sets c) = s := by
  apply World.ext <;> first | rfl | simp [World.setSet]
@[simp] theorem setKeyed_setKeyed (s : World) (c : SetId) (a b : List (Nat × Nat)) :
    (s.setKeyed c a).setKeyed c b = s.setKeyed c b := by
  apply World.ext <;> first | rfl | simp [World.setKeyed]
@[simp] theorem setKeyed_self (s : World) (c : SetId) : s.setKeyed c (s.keyed c) = s := by
  apply World.ext <;> first | rfl | simp [World.setKeyed]
@[simp] theorem setSlot_setSlot (s : World) (c : SlotId) (a b : Option Nat) : (s.setSlot c a).setSlot c b = s.setSlot c b := by
  apply World.ext <;> first | rfl | simp [World.setSlot]
@[simp] theorem setSlot_self (s : World) (c : SlotId) : s.setSlot c (s.slots c) = s := by
  apply World.ext <;> first | rfl | simp [World.setSlot]
@[simp] theorem setOwner_setOwner (s : World) (i : Nat) (a b : Option Place) :
    (s.setOwner i a).setOwner i b = s.setOwner i b := by
  apply World.ext <;> first | rfl | simp [World.setOwner]
@[simp] theorem setOwner_self (s : World) (i : Nat) : s.setOwner i (s.owner i) = s := by
  apply World.ext <;> first | rfl | simp [World.setOwner]

@[simp] theorem setList_owner (s : World) (f r : Nat) (l : List (Option Nat)) : (s.setList f r l).owner = s.owner := rfl
@[simp] theorem setSet_owner (s : World) (c : SetId) (l : List Nat) : (s.setSet c l).owner = s.owner := rfl
@[simp] theorem setKeyed_owner (s : World) (c : SetId) (l : List (Nat × Nat)) : (s.setKeyed c l).owner = s.owner := rfl
@[simp] theorem setSlot_owner (s : World) (c : SlotId) (v : Option Nat) : (s.setSlot c v).owner = s.owner := rfl
@[simp] theorem setOwner_owner (s : World) (i : Nat) (o : Option Place) : (s.setOwner i o).owner = upd s.owner i o := rfl
@[simp] theorem setOwner_lists (s : World) (i : Nat) (o : Option Place) : (s.setOwner i o).lists = s.lists := rfl
@[simp] theorem setOwner_sets (s : World) (i : Nat) (o : Option Place) : (s.setOwner i o).sets = s.sets := rfl
@[simp] theorem setOwner_keyed (s : World) (i : Nat) (o : Option Place) : (s.setOwner i o).keyed = s.keyed := rfl
@[simp] theorem setOwner_slots (s : World) (i : Nat) (o : Option Place) : (s.setOwner i o).slots = s.slots := rfl
@[simp] theorem setSet_sets (s : World) (c : SetId) (l : List Nat) : (s.setSet c l).sets = upd s.sets c l := rfl
@[simp] theorem setSet_keyed (s : World) (c : SetId) (l : List Nat) : (s.setSet c l).keyed = s.keyed := rfl
@[simp] theorem setSet_lists (s : World) (c : SetId) (l : List Nat) : (s.setSet c l).lists = s.lists := rfl
@[simp] theorem setSet_slots (s : World) (c : SetId) (l : List Nat) : (s.setSet c l).slots = s.slots := rfl
@[simp] theorem setKeyed_sets (s : World) (c : SetId) (l : List (Nat × Nat)) : (s.setKeyed c l).sets = s.sets := rfl
@[simp] theorem setKeyed_keyed (s : World) (c : SetId) (l : List (Nat × Nat)) : (s.setKeyed c l).keyed = upd s.keyed c l := rfl
@[simp] theorem setKeyed_lists (s : World) (c : SetId) (l : List (Nat × Nat)) : (s.setKeyed c l).lists = s.lists := rfl
@[simp] theorem setKeyed_slots (s : World) (c : SetId) (l : List (Nat × Nat)) : (s.setKeyed c l).slots = s.slots := rfl
@[simp] theorem setSlot_slots (s : World) (c : SlotId) (v : Option Nat) : (s.setSlot c v).slots = upd s.slots c v := rfl
@[simp] theorem setSlot_sets (s : World) (c : SlotId) (v : Option Nat) : (s.setSlot c v).sets = s.sets := rfl
@[simp] theorem setSlot_keyed (s : World) (c : SlotId) (v : Option Nat) : (s.setSlot c v).keyed = s.keyed := rfl
@[simp] theorem setSlot_lists (s : World) (c : SlotId) (v : Option Nat) : (s.setSlot c v).lists = s.lists := rfl
@[simp] theorem setList_sets (s : World) (f r : Nat) (l : List (Option Nat)) : (s.setList f r l).sets = s.sets := rfl
@[simp] theorem setList_keyed (s : World) (f r : Nat) (l : List (Option Nat)) : (s.setList f r l).keyed = s.keyed := rfl
@[simp] theorem setList_slots (s : World) (f r : Nat) (l : List (Option Nat)) : (s.setList f r l).slots = s.slots := rfl
@[simp] theorem dropOwners_lists (s : World) (xs : List Nat) : (s.dropOwners xs).lists = s.lists := rfl
@[simp] theorem dropOwners_sets (s : World) (xs : List Nat) : (s.dropOwners xs).sets = s.sets := rfl
@[simp] theorem dropOwners_keyed (s : World) (xs : List Nat) : (s.dropOwners xs).keyed = s.keyed := rfl
@[simp] theorem dropOwners_slots (s : World) (xs : List Nat) : (s.dropOwners xs).slots = s.slots := rfl
@[simp] theorem dropOwners_owner (s : World) (xs : List Nat) :
    (s.dropOwners xs).owner = fun i => if i ∈ xs then none else s.owner i := rfl

/-! ### contents after an update -/

theorem contents_setList (s : World) (f r : Nat) (l : List (Option Nat)) (p : Place) :
    contents (s.setList f r l) p = if p = .rack f r then items l else contents s p := by
  cases p with
  | rack f' r' =>
    simp only [contents, setList_lists, Place.rack.injEq]
    split <;> rfl
  | set c => simp [contents]
  | slot c => simp [contents]

theorem contents_setSet (s : World) (c : SetId) (l : List Nat) (p : Place) :
    contents (s.setSet c l) p = if p = .set c then l else contents s p := by
  cases p with
  | rack f' r' => simp [contents]
  | set c' => simp only [contents, setSet_sets, upd_apply, Place.set.injEq]
  | slot c' => simp [contents]

theorem contents_setSlot (s : World) (c : SlotId) (v : Option Nat) (p : Place) :
    contents (s.setSlot c v) p = if p = .slot c then v.toList else contents s p := by
  cases p with
  | rack f' r' => simp [contents]
  | set c' => simp [contents]
  | slot c' =>
    simp only [contents, setSlot_slots, upd_apply, Place.slot.injEq]
    split <;> rfl

@[simp] theorem contents_setOwner (s : World) (i : Nat) (o : Option Place) (p : Place) :
    contents (s.setOwner i o) p = contents s p := by cases p <;> rfl
@[simp] theorem contents_setKeyed (s : World) (c : SetId) (l : List (Nat × Nat)) (p : Place) :
    contents (s.setKeyed c l) p = contents s p := by cases p <;> rfl
@[simp] theorem contents_dropOwners (s : World) (xs : List Nat) (p : Place) :
    contents (s.dropOwners xs) p = contents s p := by cases p <;> rfl

/-! ### IsInsertion -/

theorem IsInsertion.mem {i : Nat} {A B : List Nat} (h : IsInsertion i A B) (x : Nat) : x ∈ B ↔ x = i ∨ x ∈ A := by
  obtain ⟨a, b, rfl, rfl⟩ := h
  simp only [List.mem_append, List.mem_cons]
  constructor <;> intro h <;> rcases h with h | h | h <;> simp [h]

theorem IsInsertion.nodup {i : Nat} {A B : List Nat} (h : IsInsertion i A B) (hA : A.Nodup) (hi : i ∉ A) : B.Nodup := by
  obtain ⟨a, b, rfl, rfl⟩ := h
  simp only [List.nodup_append, List.nodup_cons, List.mem_append, List.mem_cons, not_or] at *
  refine ⟨hA.1, ⟨hi.2, hA.2.1⟩, ?_⟩
  intro x hx y hy
  rcases hy with rfl | hy
  · intro h; subst h; exact hi.1 hx
  · exact hA.2.2 x hx y hy

theorem IsInsertion.nodup_of {i : Nat} {A B : List Nat} (h : IsInsertion i A B) (hB : B.Nodup) : A.Nodup ∧ i ∉ A := by
  obtain ⟨a, b, rfl, rfl⟩ := h
  simp only [List.nodup_append, List.nodup_cons, List.mem_append, List.mem_cons, not_or] at *
  refine ⟨⟨hB.1, hB.2.1.2, fun x hx y hy => hB.2.2 x hx y (Or.inr hy)⟩, ?_, hB.2.1.1⟩
  intro hi
  exact hB.2.2 i hi i (Or.inl rfl) rfl

/-- The other items keep their relative order. -/
theorem IsInsertion.sublist {i : Nat} {A B : List Nat} (h : IsInsertion i A B) : A.Sublist B := by
  obtain ⟨a, b, rfl, rfl⟩ := h
  exact List.Sublist.append (List.Sublist.refl a) (List.sublist_cons_self i b)

theorem IsInsertion.erase {i : Nat} {A B : List Nat} (h : IsInsertion i A B) (hi : i ∉ A) : B.erase i = A := by
  obtain ⟨a, b, rfl, rfl⟩ := h
  simp only [List.mem_append, not_or] at hi
  rw [List.erase_append_right _ hi.1, List.erase_cons_head]

theorem IsInsertion.cons (i : Nat) (A : List Nat) : IsInsertion i A (i :: A) := ⟨[], A, rfl, rfl⟩

theorem IsInsertion.length {i : Nat} {A B : List Nat} (h : IsInsertion i A B) : B.length = A.length + 1 := by
  obtain ⟨a, b, rfl, rfl⟩ := h
  simp; omega

/-! ### ownership invariant I4 -/

/-- I4: an item is in a place iff its back-reference says so, no place holds an item twice (hence an item
is in at most one place, once), and racks have no trailing holes. -/
structure OwnInv (s : World) : Prop where
  mem_iff : ∀ p i, i ∈ contents s p ↔ s.owner i = some p
  nodup : ∀ p, (contents s p).Nodup
  noTrail : ∀ f r, NoTrail (s.lists f r)

theorem OwnInv.empty : OwnInv World.empty where
  mem_iff := by intro p i; cases p <;> simp [contents, World.empty]
  nodup := by intro p; cases p <;> simp [contents, World.empty]
  noTrail := by intro f r; exact noTrail_nil

/-- An unowned item enters place `p`. -/
theorem OwnInv.add {s s' : World} {p : Place} {i : Nat} {L : List Nat} (h : OwnInv s) (hi : s.owner i = none)
    (hc : ∀ q, contents s' q = if q = p then L else contents s q) (hL : IsInsertion i (contents s p) L)
    (ho : s'.owner = upd s.owner i (some p)) (hnt : ∀ f r, NoTrail (s'.lists f r)) : OwnInv s' := by
  have hnot : ∀ q, i ∉ contents s q := fun q hq => by simpa [hi] using (h.mem_iff q i).1 hq
  refine ⟨?_, ?_, hnt⟩
  · intro q x
    rw [hc, ho, upd_apply]
    by_cases hq : q = p
    · subst hq
      rw [if_pos rfl, hL.mem]
      by_cases hx : x = i
      · simp [hx]
      · simp [hx, h.mem_iff]
    · rw [if_neg hq]
      by_cases hx : x = i
      · subst hx; simp [hnot q, Ne.symm hq]
      · simp [hx, h.mem_iff]
  · intro q
    rw [hc]
    split
    · exact hL.nodup (h.nodup p) (hnot p)
    · exact h.nodup q

/-- Item `i` leaves place `p`. -/
theorem OwnInv.remove {s s' : World} {p : Place} {i : Nat} {L : List Nat} (h : OwnInv s)
    (hc : ∀ q, contents s' q = if q = p then L else contents s q) (hL : IsInsertion i L (contents s p))
    (ho : s'.owner = upd s.owner i none) (hnt : ∀ f r, NoTrail (s'.lists f r)) : OwnInv s' := by
  obtain ⟨hLnd, hiL⟩ := hL.nodup_of (h.nodup p)
  have hip : s.owner i = some p := (h.mem_iff p i).1 ((hL.mem i).2 (Or.inl rfl))
  refine ⟨?_, ?_, hnt⟩
  · intro q x
    rw [hc, ho, upd_apply]
    by_cases hx : x = i
    · subst hx
      by_cases hq : q = p
      · subst hq; simp [hiL]
      · have : x ∉ contents s q := fun hm => hq (by simpa [hip] using ((h.mem_iff q x).1 hm).symm)
        simp [hq, this]
    · rw [if_neg hx, ← h.mem_iff]
      by_cases hq : q = p
      · subst hq; simp [hL.mem, hx]
      · simp [hq]
  · intro q
    rw [hc]
    split
    · exact hLnd
    · exact h.nodup q

/-- Place `p` is emptied. -/
theorem OwnInv.clear {s s' : World} {p : Place} (h : OwnInv s)
    (hc : ∀ q, contents s' q = if q = p then [] else contents s q)
    (ho : s'.owner = fun x => if x ∈ contents s p then none else s.owner x)
    (hnt : ∀ f r, NoTrail (s'.lists f r)) : OwnInv s' := by
  refine ⟨?_, ?_, hnt⟩
  · intro q x
    rw [hc, ho]
    by_cases hq : q = p
    · subst hq
      by_cases hx : x ∈ contents s q
      · simp [hx]
      · simpa [hx] using fun ho => hx ((h.mem_iff q x).2 ho)
    · by_cases hx : x ∈ contents s p
      · have hxp := (h.mem_iff p x).1 hx
        have : x ∉ contents s q := fun hm => hq (by simpa [hxp] using ((h.mem_iff q x).1 hm).symm)
        simp [hq, hx, this]
      · simp [hq, hx, h.mem_iff]
  · intro q
    rw [hc]
    split
    · exact List.nodup_nil
    · exact h.nodup q

/-- Only holes moved. -/
theorem OwnInv.same {s s' : World} (h : OwnInv s) (hc : ∀ q, contents s' q = contents s q)
    (ho : s'.owner = s.owner) (hnt : ∀ f r, NoTrail (s'.lists f r)) : OwnInv s' :=
  ⟨fun p i => by rw [hc, ho]; exact h.mem_iff p i, fun p => by rw [hc]; exact h.nodup p, hnt⟩

theorem OwnInv.not_mem_of_unowned {s : World} (h : OwnInv s) {i : Nat} (hi : s.owner i = none) (p : Place) :
    i ∉ contents s p := fun hq => by simpa [hi] using (h.mem_iff p i).1 hq

/-- NoTrail of every rack after one rack was replaced by a list without trailing holes. -/
theorem noTrail_setList {s : World} (h : ∀ f r, NoTrail (s.lists f r)) {f r : Nat} {l : List (Option Nat)}
    (hl : NoTrail l) : ∀ f' r', NoTrail ((s.setList f r l).lists f' r') := by
  intro f' r'
  rw [setList_lists]
  split
  · exact hl
  · exact h f' r'

end Eos.Containers
