import EosProofs.Lemmas.MicroLegal
/-! Tear-down at message level (property C11, implementation layer).

The registers of the calculation service (`AffectionRegister`, `ProjectionRegister`) are modelled by their
declarative content: the loaded flags, running-effect flags, recorded projection targets and registered
warfare-buff modifiers (`__warfare_buffs`) of `Micro.Dyn`, from which `allSpecs`, `affectees`, `rdeps` … are
*derived*.  "No register retains an entry" therefore reads: the flags of every configured item are off and
nothing is recorded or registered for it, hence every derived list is empty.

`teardown i es s` is the canonical message sequence that removes item `i`: `EffectUnapplied` for every
effect with recorded targets, the drop of the registered warfare-buff modifiers of its boost effects
(`buffset … []`, which the service does inside its `EffectsStopped` handler), `EffectsStopped` for the running
effects, `ItemUnloaded`. -/
namespace Eos.Cascade
variable {N V : Type} [DecidableEq N]

/-- The cascade only removes entries, whatever the fuel. -/
theorem casc_visit_sub (rdeps : N → List N) : ∀ fuel : Nat,
    (∀ (K : Cache N V) (n : N), Sub K (casc rdeps fuel K n)) ∧
    (∀ (K : Cache N V) (t : N), Sub K (visit rdeps fuel K t)) := by
  have fold : ∀ (v : Cache N V → N → Cache N V), (∀ K t, Sub K (v K t)) →
      ∀ (l : List N) (K : Cache N V), Sub K (l.foldl v K) := by
    intro v hv l
    induction l with
    | nil => intro K; exact Sub.refl K
    | cons t l ih => intro K; exact (hv K t).trans (ih (v K t))
  have vis : ∀ fuel, (∀ (K : Cache N V) (n : N), Sub K (casc rdeps fuel K n)) →
      ∀ (K : Cache N V) (t : N), Sub K (visit rdeps fuel K t) := by
    intro fuel hc K t
    unfold visit
    by_cases hk : K t = none
    · rw [if_pos hk]; exact Sub.refl K
    · rw [if_neg hk]; exact (drop_sub K t).trans (hc _ t)
  intro fuel
  induction fuel with
  | zero =>
    have hc : ∀ (K : Cache N V) (n : N), Sub K (casc rdeps 0 K n) := by
      intro K n; simp only [casc]; exact Sub.refl K
    exact ⟨hc, vis 0 hc⟩
  | succ f ih =>
    have hc : ∀ (K : Cache N V) (n : N), Sub K (casc rdeps (f + 1) K n) := by
      intro K n; simp only [casc]; exact fold _ ih.2 _ K
    exact ⟨hc, vis (f + 1) hc⟩

end Eos.Cascade

namespace Eos.Micro.L
open Eos.World Eos.DepCache Eos.Machine

variable {u : Universe}

/-! ## Runs of messages -/

def mrun (u : Universe) (s : MState) : List MStep → MState
  | [] => s
  | st :: rest => mrun u (mstep u s st) rest

/-- `P` holds of every step of the run, in the state where the step is taken. -/
def MRunOK (u : Universe) (P : MState → MStep → Prop) (s : MState) : List MStep → Prop
  | [] => True
  | st :: rest => P s st ∧ MRunOK u P (mstep u s st) rest

/-- `Q` holds of every state the run passes through (first and last included). -/
def MRunAll (u : Universe) (Q : MState → Prop) (s : MState) : List MStep → Prop
  | [] => Q s
  | st :: rest => Q s ∧ MRunAll u Q (mstep u s st) rest

theorem mrun_append (s : MState) (l1 l2 : List MStep) : mrun u s (l1 ++ l2) = mrun u (mrun u s l1) l2 := by
  induction l1 generalizing s with
  | nil => rfl
  | cons st l1 ih => exact ih (mstep u s st)

theorem mrunOK_append {P : MState → MStep → Prop} (s : MState) (l1 l2 : List MStep) :
    MRunOK u P s (l1 ++ l2) ↔ MRunOK u P s l1 ∧ MRunOK u P (mrun u s l1) l2 := by
  induction l1 generalizing s with
  | nil => exact ⟨fun h => ⟨trivial, h⟩, fun h => h.2⟩
  | cons st l1 ih =>
    simp only [List.cons_append, MRunOK, mrun, ih, and_assoc]

theorem mrunOK_and {P P' : MState → MStep → Prop} : ∀ (l : List MStep) (s : MState),
    MRunOK u P s l → MRunOK u P' s l → MRunOK u (fun s st => P s st ∧ P' s st) s l
  | [], _, _, _ => trivial
  | _ :: rest, _, h, h' => ⟨⟨h.1, h'.1⟩, mrunOK_and rest _ h.2 h'.2⟩

/-- A run is a history of `micro` events. -/
theorem wrun_micro (W : Config × Dyn → Graph Node Rat) : ∀ (l : List MStep) (s : MState),
    wrun u W s (l.map .micro) = mrun u s l
  | [], _ => rfl
  | st :: rest, s => wrun_micro W rest (mstep u s st)

theorem wrunOK_micro (W : Config × Dyn → Graph Node Rat) : ∀ (l : List MStep) (s : MState),
    WRunOK u W s (l.map .micro) ↔ MRunOK u (fun s st => StepOK W s st ∧ StaticAround u W s st) s l
  | [], _ => Iff.rfl
  | st :: rest, s => by
    simp only [List.map_cons, WRunOK, MRunOK, WStepOK, wstep]
    rw [wrunOK_micro W rest]

theorem wrun_append (W : Config × Dyn → Graph Node Rat) (s : MState) (l1 l2 : List WStep) :
    wrun u W s (l1 ++ l2) = wrun u W (wrun u W s l1) l2 := by
  induction l1 generalizing s with
  | nil => rfl
  | cons st l1 ih => exact ih (wstep u W s st)

theorem wrunOK_append (W : Config × Dyn → Graph Node Rat) (s : MState) (l1 l2 : List WStep) :
    WRunOK u W s (l1 ++ l2) ↔ WRunOK u W s l1 ∧ WRunOK u W (wrun u W s l1) l2 := by
  induction l1 generalizing s with
  | nil => exact ⟨fun h => ⟨trivial, h⟩, fun h => h.2⟩
  | cons st l1 ih => simp only [List.cons_append, WRunOK, wrun, ih, and_assoc]

/-- Every step only removes cache entries. -/
theorem mstep_sub (s : MState) (st : MStep) : Cascade.Sub s.cache (mstep u s st).cache := by
  have hv : ∀ cfg d K l, Cascade.Sub K (visitAll u cfg d (fuelOf u) K l) := by
    intro cfg d K l
    rw [visitAll_eq]
    induction l generalizing K with
    | nil => exact Cascade.Sub.refl K
    | cons t l ih => exact ((Cascade.casc_visit_sub _ _).2 K t).trans (ih _)
  cases st with
  | read S => exact Cascade.Sub.refl _
  | load i => exact Cascade.Sub.refl _
  | unload i =>
    intro n
    show (if n.1 = i then none else s.cache n) = none ∨ (if n.1 = i then none else s.cache n) = s.cache n
    by_cases h : n.1 = i
    · exact Or.inl (if_pos h)
    · exact Or.inr (if_neg h)
  | start i es => exact hv _ _ _ _
  | stop i es => exact hv _ _ _ _
  | apply i e ts => exact hv _ _ _ _
  | unapply i e ts => exact hv _ _ _ _
  | changed i attr =>
    show Cascade.Sub s.cache (casc u s.cfg s.dyn (fuelOf u) s.cache (i, attr))
    rw [(casc_visit_eq u s.cfg s.dyn (fuelOf u)).1]
    exact (Cascade.casc_visit_sub _ _).1 _ _
  | buffset i e ms => exact Cascade.Sub.refl _
  | reconfig cfg' => exact Cascade.Sub.refl _

theorem sub_none {K K' : Cache} (h : Cascade.Sub K K') {n : Node} (hn : K n = none) : K' n = none := by
  rcases h n with h | h
  · exact h
  · rw [h, hn]

/-! ## Tear-down of one item -/

/-- The canonical tear-down of item `i`; `es` lists the effect ids that may be running or applied. -/
def teardown (i : Nat) (es : List Int) (s : MState) : List MStep :=
  ((es.filter fun e => !(s.dyn.tgts i e).isEmpty).map fun e => .unapply i e (s.dyn.tgts i e)) ++
    (((es.filter fun e => !(s.dyn.bspecs i e).isEmpty).map fun e => .buffset i e []) ++
      [.stop i (es.filter fun e => s.dyn.on i e), .unload i])

/-- `es` covers what the registers hold for item `i`. -/
def Covers (d : Dyn) (i : Nat) (es : List Int) : Prop :=
  ∀ e, d.on i e = true ∨ d.tgts i e ≠ [] ∨ d.bspecs i e ≠ [] → e ∈ es

/-- State `s'` is `s` with item `i` torn down: its flags are off, nothing is recorded or registered for it,
nothing of it is cached; the registers of the other items are untouched and the cache has only lost entries. -/
structure TornDown (i : Nat) (s s' : MState) : Prop where
  cfg : s'.cfg = s.cfg
  loaded : s'.dyn.loaded i = false
  on : ∀ e, s'.dyn.on i e = false
  tgts : ∀ e, s'.dyn.tgts i e = []
  bspecs : ∀ e, s'.dyn.bspecs i e = []
  cache : ∀ n, n.1 = i → s'.cache n = none
  other : ∀ j, j ≠ i → s'.dyn.loaded j = s.dyn.loaded j ∧
    ∀ e, s'.dyn.on j e = s.dyn.on j e ∧ s'.dyn.tgts j e = s.dyn.tgts j e ∧ s'.dyn.bspecs j e = s.dyn.bspecs j e
  sub : Cascade.Sub s.cache s'.cache

/-- The `EffectUnapplied` phase: registers other than `tgts i` are untouched, and `tgts i e` is emptied for
every listed `e`. -/
theorem unapply_phase (i : Nat) (T : Int → List Nat) : ∀ (l : List Int) (s : MState),
    (∀ e, s.dyn.tgts i e = T e ∨ s.dyn.tgts i e = []) →
    (mrun u s (l.map fun e => .unapply i e (T e))).cfg = s.cfg ∧
    (mrun u s (l.map fun e => .unapply i e (T e))).dyn.loaded = s.dyn.loaded ∧
    (mrun u s (l.map fun e => .unapply i e (T e))).dyn.on = s.dyn.on ∧
    (mrun u s (l.map fun e => .unapply i e (T e))).dyn.bspecs = s.dyn.bspecs ∧
    (∀ j, j ≠ i → ∀ e, (mrun u s (l.map fun e => .unapply i e (T e))).dyn.tgts j e = s.dyn.tgts j e) ∧
    (∀ e, (mrun u s (l.map fun e => .unapply i e (T e))).dyn.tgts i e = [] ∨
      (e ∉ l ∧ (mrun u s (l.map fun e => .unapply i e (T e))).dyn.tgts i e = s.dyn.tgts i e)) ∧
    Cascade.Sub s.cache (mrun u s (l.map fun e => .unapply i e (T e))).cache := by
  intro l
  induction l with
  | nil =>
    intro s _
    exact ⟨rfl, rfl, rfl, rfl, fun _ _ _ => rfl, fun e => Or.inr ⟨List.not_mem_nil, rfl⟩, Cascade.Sub.refl _⟩
  | cons e0 l ih =>
    intro s hT
    have htg : ∀ j f, (mstep u s (.unapply i e0 (T e0))).dyn.tgts j f =
        if j = i ∧ f = e0 then (s.dyn.tgts i e0).filter (fun t => !(T e0).contains t) else s.dyn.tgts j f :=
      fun _ _ => rfl
    have h0 : (mstep u s (.unapply i e0 (T e0))).dyn.tgts i e0 = [] := by
      rw [htg, if_pos ⟨rfl, rfl⟩]
      rcases hT e0 with h | h
      · rw [h]; exact filter_not_contains_self _
      · rw [h]; rfl
    have hT' : ∀ e, (mstep u s (.unapply i e0 (T e0))).dyn.tgts i e = T e ∨
        (mstep u s (.unapply i e0 (T e0))).dyn.tgts i e = [] := by
      intro e
      by_cases he : e = e0
      · subst he; exact Or.inr h0
      · rw [htg, if_neg (fun h => he h.2)]; exact hT e
    obtain ⟨c, lo, on, bs, ot, tg, sb⟩ := ih (mstep u s (.unapply i e0 (T e0))) hT'
    simp only [List.map_cons, mrun]
    refine ⟨c, lo, on, bs, fun j hj e => ?_, fun e => ?_, (mstep_sub s _).trans sb⟩
    · rw [ot j hj e, htg, if_neg (fun h => hj h.1)]
    · rcases tg e with h | ⟨hn, h⟩
      · exact Or.inl h
      · by_cases he : e = e0
        · subst he; exact Or.inl (h.trans h0)
        · refine Or.inr ⟨fun hm => ?_, ?_⟩
          · rcases List.mem_cons.1 hm with hm | hm
            · exact he hm
            · exact hn hm
          · rw [h, htg, if_neg (fun hh => he hh.2)]

/-- The phase that drops registered warfare-buff modifiers: only `bspecs i` changes, and it is emptied for
every listed `e`. -/
theorem buffclear_phase (i : Nat) : ∀ (l : List Int) (s : MState),
    (mrun u s (l.map fun e => .buffset i e [])).cfg = s.cfg ∧
    (mrun u s (l.map fun e => .buffset i e [])).dyn.loaded = s.dyn.loaded ∧
    (mrun u s (l.map fun e => .buffset i e [])).dyn.on = s.dyn.on ∧
    (mrun u s (l.map fun e => .buffset i e [])).dyn.tgts = s.dyn.tgts ∧
    (mrun u s (l.map fun e => .buffset i e [])).cache = s.cache ∧
    (∀ j, j ≠ i → ∀ e, (mrun u s (l.map fun e => .buffset i e [])).dyn.bspecs j e = s.dyn.bspecs j e) ∧
    (∀ e, (e ∈ l → (mrun u s (l.map fun e => .buffset i e [])).dyn.bspecs i e = []) ∧
      (e ∉ l → (mrun u s (l.map fun e => .buffset i e [])).dyn.bspecs i e = s.dyn.bspecs i e)) := by
  intro l
  induction l with
  | nil => intro s; exact ⟨rfl, rfl, rfl, rfl, rfl, fun _ _ _ => rfl, fun e => ⟨fun h => (by cases h), fun _ => rfl⟩⟩
  | cons e0 l ih =>
    intro s
    have hbs : ∀ j f, (mstep u s (.buffset i e0 [])).dyn.bspecs j f =
        if j = i ∧ f = e0 then [] else s.dyn.bspecs j f := fun _ _ => rfl
    obtain ⟨c, lo, on, tg, ca, ot, bs⟩ := ih (mstep u s (.buffset i e0 []))
    simp only [List.map_cons, mrun]
    refine ⟨c, lo, on, tg, ca, fun j hj e => ?_, fun e => ⟨fun he => ?_, fun he => ?_⟩⟩
    · rw [ot j hj e, hbs, if_neg (fun h => hj h.1)]
    · by_cases hl : e ∈ l
      · exact (bs e).1 hl
      · have he0 : e = e0 := by
          rcases List.mem_cons.1 he with h | h
          · exact h
          · exact absurd h hl
        rw [(bs e).2 hl, hbs, if_pos ⟨rfl, he0⟩]
    · have hl : e ∉ l := fun h => he (List.mem_cons_of_mem _ h)
      have he0 : e ≠ e0 := fun h => he (h ▸ List.mem_cons_self)
      rw [(bs e).2 hl, hbs, if_neg (fun h => he0 h.2)]

/-- The state after the `EffectUnapplied` phase and the drop of the warfare-buff modifiers: nothing is recorded
or registered for `i` any more; flags and the other items' registers are untouched. -/
theorem teardown_pre (i : Nat) (es : List Int) (s : MState) (hcov : Covers s.dyn i es) :
    let s1 := mrun u s ((es.filter fun e => !(s.dyn.tgts i e).isEmpty).map fun e => .unapply i e (s.dyn.tgts i e))
    let s2 := mrun u s1 ((es.filter fun e => !(s.dyn.bspecs i e).isEmpty).map fun e => .buffset i e [])
    (∀ e, s1.dyn.tgts i e = []) ∧
    s2.cfg = s.cfg ∧ s2.dyn.loaded = s.dyn.loaded ∧ s2.dyn.on = s.dyn.on ∧
    (∀ e, s2.dyn.tgts i e = []) ∧ (∀ e, s2.dyn.bspecs i e = []) ∧
    (∀ j, j ≠ i → ∀ e, s2.dyn.tgts j e = s.dyn.tgts j e ∧ s2.dyn.bspecs j e = s.dyn.bspecs j e) ∧
    Cascade.Sub s.cache s2.cache := by
  intro s1 s2
  obtain ⟨c, lo, on, bs, ot, tg, sb⟩ := unapply_phase (u := u) i (s.dyn.tgts i)
    (es.filter fun e => !(s.dyn.tgts i e).isEmpty) s (fun _ => Or.inl rfl)
  have htg0 : ∀ e, s1.dyn.tgts i e = [] := by
    intro e
    rcases tg e with h | ⟨hn, h⟩
    · exact h
    · show (mrun u s _).dyn.tgts i e = []
      rw [h]
      cases hl : s.dyn.tgts i e with
      | nil => rfl
      | cons t ts =>
        exact absurd (List.mem_filter.2 ⟨hcov e (Or.inr (Or.inl (by rw [hl]; exact List.cons_ne_nil _ _))),
          by simp [hl]⟩) hn
  obtain ⟨c2, lo2, on2, tg2, ca2, ot2, bs2⟩ := buffclear_phase (u := u) i
    (es.filter fun e => !(s.dyn.bspecs i e).isEmpty) s1
  refine ⟨htg0, c2.trans c, lo2.trans lo, on2.trans on, fun e => ?_, fun e => ?_, fun j hj e => ⟨?_, ?_⟩, ?_⟩
  · show s2.dyn.tgts i e = []
    rw [show s2.dyn.tgts = s1.dyn.tgts from tg2]; exact htg0 e
  · by_cases he : e ∈ es.filter fun e => !(s.dyn.bspecs i e).isEmpty
    · exact (bs2 e).1 he
    · show s2.dyn.bspecs i e = []
      rw [(bs2 e).2 he, show s1.dyn.bspecs = s.dyn.bspecs from bs]
      cases hl : s.dyn.bspecs i e with
      | nil => rfl
      | cons m ms =>
        exact absurd (List.mem_filter.2 ⟨hcov e (Or.inr (Or.inr (by rw [hl]; exact List.cons_ne_nil _ _))),
          by simp [hl]⟩) he
  · show s2.dyn.tgts j e = _
    rw [show s2.dyn.tgts = s1.dyn.tgts from tg2]; exact ot j hj e
  · show s2.dyn.bspecs j e = _
    rw [ot2 j hj e, show s1.dyn.bspecs = s.dyn.bspecs from bs]
  · show Cascade.Sub s.cache s2.cache
    rw [show s2.cache = s1.cache from ca2]; exact sb

/-- **(1)** After the canonical tear-down of item `i` its loaded flag, running-effect flags, recorded
targets and registered warfare-buff modifiers are all gone, no cache entry of `i` remains, and nothing of the
other items' registers changed. -/
theorem teardown_tornDown (i : Nat) (es : List Int) (s : MState) (hcov : Covers s.dyn i es) :
    TornDown i s (mrun u s (teardown i es s)) := by
  obtain ⟨_, c, lo, on, tg0, bs0, ot, sb⟩ := teardown_pre (u := u) i es s hcov
  unfold teardown
  rw [mrun_append, mrun_append]
  generalize mrun u (mrun u s ((es.filter fun e => !(s.dyn.tgts i e).isEmpty).map
      fun e => .unapply i e (s.dyn.tgts i e))) ((es.filter fun e => !(s.dyn.bspecs i e).isEmpty).map
      fun e => .buffset i e []) = s2 at c lo on tg0 bs0 ot sb
  show TornDown i s (mstep u (mstep u s2 (.stop i (es.filter fun e => s.dyn.on i e))) (.unload i))
  have sb2 := (sb.trans (mstep_sub (u := u) s2 (.stop i (es.filter fun e => s.dyn.on i e)))).trans
    (mstep_sub (u := u) _ (.unload i))
  refine ⟨c, ?_, fun e => ?_, fun e => tg0 e, fun e => bs0 e, fun n hn => ?_,
    fun j hj => ⟨?_, fun e => ⟨?_, (ot j hj e).1, (ot j hj e).2⟩⟩, sb2⟩
  · show (if i = i then false else _) = false
    rw [if_pos rfl]
  · show (if i = i ∧ e ∈ (es.filter fun e => s.dyn.on i e) then false else s2.dyn.on i e) = false
    by_cases he : i = i ∧ e ∈ es.filter fun e => s.dyn.on i e
    · rw [if_pos he]
    · rw [if_neg he, on]
      cases ho : s.dyn.on i e with
      | false => rfl
      | true => exact absurd ⟨rfl, List.mem_filter.2 ⟨hcov e (Or.inl ho), ho⟩⟩ he
  · show (if n.1 = i then none else _) = none
    rw [if_pos hn]
  · show (if j = i then false else s2.dyn.loaded j) = s.dyn.loaded j
    rw [if_neg hj, lo]
  · show (if j = i ∧ e ∈ (es.filter fun e => s.dyn.on i e) then false else s2.dyn.on j e) = s.dyn.on j e
    rw [if_neg (fun h => hj h.1), on]

/-- **(3)** Every message of the tear-down is taken under its side conditions (`StepOK`), provided no
*other* item still has `i` among its recorded targets (K1: projectors let go of their targets first). -/
theorem teardown_stepOK (W : Config × Dyn → Graph Node Rat) (i : Nat) (es : List Int) (s : MState)
    (hcov : Covers s.dyn i es) (hK1 : ∀ a, a ≠ i → ∀ e, i ∉ s.dyn.tgts a e) :
    MRunOK u (StepOK W) s (teardown i es s) := by
  obtain ⟨htg1, c, lo, on, tg0, bs0, ot, sb⟩ := teardown_pre (u := u) i es s hcov
  unfold teardown
  rw [mrunOK_append, mrunOK_append]
  refine ⟨?_, ?_, ?_⟩
  · -- `EffectUnapplied` has no side condition
    have : ∀ (l : List Int) (s0 : MState), MRunOK u (StepOK W) s0 (l.map fun e => .unapply i e (s.dyn.tgts i e)) := by
      intro l
      induction l with
      | nil => intro _; trivial
      | cons e l ih => intro s0; exact ⟨trivial, ih _⟩
    exact this _ s
  · -- the modifiers are dropped when nothing is recorded for `i` any more
    have : ∀ (l : List Int) (s0 : MState), (∀ e, s0.dyn.tgts i e = []) →
        MRunOK u (StepOK W) s0 (l.map fun e => .buffset i e []) := by
      intro l
      induction l with
      | nil => intro _ _; trivial
      | cons e l ih => intro s0 h0; exact ⟨h0 e, ih _ h0⟩
    exact this _ _ htg1
  · generalize mrun u (mrun u s ((es.filter fun e => !(s.dyn.tgts i e).isEmpty).map
        fun e => .unapply i e (s.dyn.tgts i e))) ((es.filter fun e => !(s.dyn.bspecs i e).isEmpty).map
        fun e => .buffset i e []) = s2 at c lo on tg0 bs0 ot sb
    refine ⟨fun e _ => tg0 e, ⟨fun e => ?_, fun a e => ?_⟩, trivial⟩
    · show (if i = i ∧ e ∈ (es.filter fun e => s.dyn.on i e) then false else s2.dyn.on i e) = false
      by_cases he : i = i ∧ e ∈ es.filter fun e => s.dyn.on i e
      · rw [if_pos he]
      · rw [if_neg he, on]
        cases ho : s.dyn.on i e with
        | false => rfl
        | true => exact absurd ⟨rfl, List.mem_filter.2 ⟨hcov e (Or.inl ho), ho⟩⟩ he
    · show i ∉ s2.dyn.tgts a e
      by_cases ha : a = i
      · rw [ha, tg0]; exact List.not_mem_nil
      · rw [(ot a ha e).1]; exact hK1 a ha e

/-! ## The invariant along a run -/

/-- `MInv` holds in every state of a run whose steps satisfy `StepOK` and `StaticAround`. -/
theorem mrun_inv_all {immune limited : List Int} {pen : Nat → Rat} {keep : Config → Node → Bool}
    {W : Config × Dyn → Graph Node Rat} (T : Ties u immune limited pen keep W) (hwf : RankWF u)
    (hun : UniqueAttrs u) (hR : ResistWF u) : ∀ (l : List MStep) (s : MState), MInv W s →
      MRunOK u (fun s st => StepOK W s st ∧ StaticAround u W s st) s l → MRunAll u (MInv W) s l
  | [], _, inv, _ => inv
  | st :: rest, _, inv, ok =>
    ⟨inv, mrun_inv_all T hwf hun hR rest _ (mstep_inv T hwf hun hR inv st ok.1.1 ok.1.2) ok.2⟩

theorem mrunAll_last {Q : MState → Prop} : ∀ (l : List MStep) (s : MState), MRunAll u Q s l → Q (mrun u s l)
  | [], _, h => h
  | _ :: rest, _, h => mrunAll_last rest _ h.2

/-! ## Tear-down of every item -/

/-- Tear the items `order` down one after the other, each in the state the previous tear-downs left. -/
def teardownAll (u : Universe) (es : List Int) : List Nat → MState → List MStep
  | [], _ => []
  | i :: rest, s => teardown i es s ++ teardownAll u es rest (mrun u s (teardown i es s))

/-- The registers hold nothing for the configured items: the declarative content of the affection and
projection registers (affectee items, running effects / affector specs, projectors and their targets) and of
the warfare-buff register. -/
def DynEmptyOn (cfg : Config) (d : Dyn) : Prop :=
  ∀ x ∈ cfg.items, d.loaded x.id = false ∧ ∀ e, d.on x.id e = false ∧ d.tgts x.id e = [] ∧ d.bspecs x.id e = []

/-- Projectors let go of their targets first: whenever `i` is a recorded target of `a`, `a` is `i` itself or
is torn down before `i` (`done` = items already torn down). -/
def K1Order (d : Dyn) : List Nat → List Nat → Prop
  | _, [] => True
  | done, i :: rest => (∀ a e, i ∈ d.tgts a e → a = i ∨ a ∈ done) ∧ K1Order d (i :: done) rest

theorem covers_of_tornDown {i : Nat} {s s' : MState} (h : TornDown i s s') {es : List Int}
    (hc : ∀ j, Covers s.dyn j es) : ∀ j, Covers s'.dyn j es := by
  intro j e he
  by_cases hj : j = i
  · subst hj
    rcases he with he | he | he
    · rw [h.on] at he; cases he
    · exact absurd (h.tgts e) he
    · exact absurd (h.bspecs e) he
  · obtain ⟨_, h2⟩ := h.other j hj
    rw [(h2 e).1, (h2 e).2.1, (h2 e).2.2] at he
    exact hc j e he

/-- What the tear-down of the items `order` achieves, with the bookkeeping needed for the induction. -/
theorem teardownAll_spec (es : List Int) : ∀ (order : List Nat) (s : MState), (∀ j, Covers s.dyn j es) →
    (mrun u s (teardownAll u es order s)).cfg = s.cfg ∧
    Cascade.Sub s.cache (mrun u s (teardownAll u es order s)).cache ∧
    (∀ j, (mrun u s (teardownAll u es order s)).dyn.loaded j = true → s.dyn.loaded j = true) ∧
    (∀ j e, (mrun u s (teardownAll u es order s)).dyn.on j e = true → s.dyn.on j e = true) ∧
    (∀ j e, (mrun u s (teardownAll u es order s)).dyn.tgts j e = s.dyn.tgts j e ∨
      (mrun u s (teardownAll u es order s)).dyn.tgts j e = []) ∧
    (∀ j e, (mrun u s (teardownAll u es order s)).dyn.bspecs j e = s.dyn.bspecs j e ∨
      (mrun u s (teardownAll u es order s)).dyn.bspecs j e = []) ∧
    ∀ i ∈ order, (mrun u s (teardownAll u es order s)).dyn.loaded i = false ∧
      (∀ e, (mrun u s (teardownAll u es order s)).dyn.on i e = false ∧
        (mrun u s (teardownAll u es order s)).dyn.tgts i e = [] ∧
        (mrun u s (teardownAll u es order s)).dyn.bspecs i e = []) ∧
      ∀ n, n.1 = i → (mrun u s (teardownAll u es order s)).cache n = none := by
  intro order
  induction order with
  | nil =>
    intro s _
    exact ⟨rfl, Cascade.Sub.refl _, fun _ h => h, fun _ _ h => h, fun _ _ => Or.inl rfl, fun _ _ => Or.inl rfl,
      fun _ h => by cases h⟩
  | cons i rest ih =>
    intro s hc
    have td := teardown_tornDown (u := u) i es s (hc i)
    obtain ⟨c, sb, lo, on, tg, bs, emp⟩ := ih (mrun u s (teardown i es s)) (covers_of_tornDown td hc)
    simp only [teardownAll, mrun_append]
    refine ⟨c.trans td.cfg, td.sub.trans sb, fun j h => ?_, fun j e h => ?_, fun j e => ?_, fun j e => ?_,
      fun k hk => ?_⟩
    · by_cases hj : j = i
      · have := lo j h; rw [hj, td.loaded] at this; cases this
      · rw [← (td.other j hj).1]; exact lo j h
    · by_cases hj : j = i
      · have := on j e h; rw [hj, td.on] at this; cases this
      · rw [← ((td.other j hj).2 e).1]; exact on j e h
    · by_cases hj : j = i
      · rcases tg j e with h | h
        · right; rw [h, hj, td.tgts]
        · exact Or.inr h
      · rw [← ((td.other j hj).2 e).2.1]; exact tg j e
    · by_cases hj : j = i
      · rcases bs j e with h | h
        · right; rw [h, hj, td.bspecs]
        · exact Or.inr h
      · rw [← ((td.other j hj).2 e).2.2]; exact bs j e
    · rcases List.mem_cons.1 hk with rfl | hk
      · refine ⟨?_, fun e => ⟨?_, ?_, ?_⟩, fun n hn => sub_none sb (td.cache n hn)⟩
        · cases h : (mrun u (mrun u s (teardown k es s)) (teardownAll u es rest (mrun u s (teardown k es s)))).dyn.loaded k with
          | false => rfl
          | true => have := lo k h; rw [td.loaded] at this; cases this
        · cases h : (mrun u (mrun u s (teardown k es s)) (teardownAll u es rest (mrun u s (teardown k es s)))).dyn.on k e with
          | false => rfl
          | true => have := on k e h; rw [td.on] at this; cases this
        · rcases tg k e with h | h
          · rw [h, td.tgts]
          · exact h
        · rcases bs k e with h | h
          · rw [h, td.bspecs]
          · exact h
      · exact emp k hk

/-- **(2)** After tearing down every item of the configuration (in any order, repetitions allowed) the
registers hold nothing for the configured items (flags, recorded targets, registered warfare-buff modifiers)
and the cache holds nothing for them. -/
theorem teardownAll_empty (es : List Int) (order : List Nat) (s : MState) (hc : ∀ j, Covers s.dyn j es)
    (hall : ∀ x ∈ s.cfg.items, x.id ∈ order) :
    (mrun u s (teardownAll u es order s)).cfg = s.cfg ∧
    DynEmptyOn s.cfg (mrun u s (teardownAll u es order s)).dyn ∧
    ∀ x ∈ s.cfg.items, ∀ a, (mrun u s (teardownAll u es order s)).cache (x.id, a) = none := by
  obtain ⟨c, _, _, _, _, _, emp⟩ := teardownAll_spec (u := u) es order s hc
  exact ⟨c, fun x hx => ⟨(emp _ (hall x hx)).1, (emp _ (hall x hx)).2.1⟩,
    fun x hx a => (emp _ (hall x hx)).2.2 (x.id, a) rfl⟩

/-- **(3)** for the whole tear-down: every message satisfies `StepOK` when projectors are torn down before
their targets (`K1Order` on the initial registers). -/
theorem teardownAll_stepOK (W : Config × Dyn → Graph Node Rat) (es : List Int) :
    ∀ (order done : List Nat) (s : MState) (d0 : Dyn), (∀ j, Covers s.dyn j es) →
      (∀ j e, s.dyn.tgts j e = d0.tgts j e ∨ s.dyn.tgts j e = []) →
      (∀ j ∈ done, ∀ e, s.dyn.tgts j e = []) → K1Order d0 done order →
      MRunOK u (StepOK W) s (teardownAll u es order s) := by
  intro order
  induction order with
  | nil => intro _ _ _ _ _ _ _; trivial
  | cons i rest ih =>
    intro done s d0 hc htg hdone hk
    have td := teardown_tornDown (u := u) i es s (hc i)
    simp only [teardownAll]
    rw [mrunOK_append]
    refine ⟨teardown_stepOK W i es s (hc i) (fun a ha e hi => ?_), ?_⟩
    · rcases htg a e with h | h
      · rw [h] at hi
        rcases hk.1 a e hi with h' | h'
        · exact ha h'
        · have := hdone a h' e; rw [h] at this; rw [this] at hi; cases hi
      · rw [h] at hi; cases hi
    · refine ih (i :: done) _ d0 (covers_of_tornDown td hc) (fun j e => ?_) (fun j hj e => ?_) hk.2
      · by_cases hj : j = i
        · right; rw [hj]; exact td.tgts e
        · rw [((td.other j hj).2 e).2.1]; exact htg j e
      · by_cases hji : j = i
        · rw [hji]; exact td.tgts e
        · rcases List.mem_cons.1 hj with h | h
          · exact absurd h hji
          · rw [((td.other j hji).2 e).2.1]; exact hdone j h e

/-! ## What an empty dynamic state means for the derived registers -/

section empty
variable {cfg : Config} {d : Dyn}

theorem typeOf?_empty (h : DynEmptyOn cfg d) {x : Item} (hx : x ∈ cfg.items) : typeOf? u d x = none := by
  unfold typeOf?; rw [(h x hx).1]; rfl

theorem running_empty (h : DynEmptyOn cfg d) {x : Item} (hx : x ∈ cfg.items) : running u d x = [] := by
  unfold running typeEffects; rw [typeOf?_empty h hx]; rfl

theorem localSpecs_empty (h : DynEmptyOn cfg d) {x : Item} (hx : x ∈ cfg.items) : localSpecs u d x = [] := by
  unfold localSpecs; rw [running_empty h hx]; rfl

theorem projSpecs_empty (h : DynEmptyOn cfg d) {x : Item} (hx : x ∈ cfg.items) : projSpecs u cfg d x = [] := by
  unfold projSpecs; rw [running_empty h hx]; rfl

theorem targetsOf_empty (h : DynEmptyOn cfg d) {x : Item} (hx : x ∈ cfg.items) (e : Effect) :
    targetsOf cfg d x e = [] := by
  unfold targetsOf; rw [((h x hx).2 e.id).2.1]; rfl

theorem allSpecs_empty (h : DynEmptyOn cfg d) : allSpecs u cfg d = [] := by
  unfold allSpecs
  rw [flatMap_congr_mem (g := fun _ => []) (fun a ha => by rw [localSpecs_empty h ha, projSpecs_empty h ha]; rfl)]
  simp

theorem affectees_empty (h : DynEmptyOn cfg d) (s : Spec) : affectees u cfg d s = [] := by
  unfold affectees
  refine List.filter_eq_nil_iff.2 (fun x hx => ?_)
  rw [typeOf?_empty h hx]; simp

theorem specsOn_empty (h : DynEmptyOn cfg d) (x : Item) (tx : ItemType) (attr : Int) :
    specsOn u cfg d x tx attr = [] := by
  unfold specsOn; rw [allSpecs_empty h]; rfl

theorem directOf_empty (h : DynEmptyOn cfg d) (specs : List Spec) : directOf u cfg d specs = [] := by
  unfold directOf
  rw [flatMap_congr_mem (g := fun _ => []) (fun s _ => by rw [affectees_empty h]; rfl)]
  simp

theorem deps_empty (h : DynEmptyOn cfg d) (n : Node) : deps u cfg d n = [] := by
  unfold deps
  cases hx : item? cfg n.1 with
  | none => rfl
  | some x =>
    cases ham : attrMeta? u n.2 with
    | none => rfl
    | some am =>
      simp only [typeOf?_empty h (item?_mem hx)]
      split <;> rfl

/-- Of the reverse-dependency enumerators only the static cap table remains. -/
theorem rdeps_empty (h : DynEmptyOn cfg d) (n : Node) :
    rdeps u cfg d n = match item? cfg n.1 with
      | none => []
      | some y => (u.attrs.filter fun am => am.maxAttr == some n.2).map fun am => (y.id, am.id) := by
  unfold rdeps
  cases hy : item? cfg n.1 with
  | none => rfl
  | some y =>
    have h2 : (((localSpecs u d y ++ projSpecs u cfg d y).filter fun s => s.m.srcAttr == n.2).flatMap fun s =>
        (affectees u cfg d s).map fun x => (x.id, s.m.tgtAttr)) = [] := by
      rw [localSpecs_empty h (item?_mem hy), projSpecs_empty h (item?_mem hy)]; rfl
    have h3 : (cfg.items.flatMap fun a =>
        ((projSpecs u cfg d a).filter fun s =>
            s.e.resistAttr == some n.2 && n.2 != 0 &&
            (targetsOf cfg d a s.e).any fun t =>
              t.id == y.id || (y.kind.ownerModifiable && shipOf cfg y.fit == some t.id)).flatMap
          fun s => (affectees u cfg d s).map fun x => (x.id, s.m.tgtAttr)) = [] := by
      rw [flatMap_congr_mem (g := fun _ => []) (fun a ha => by rw [projSpecs_empty h ha]; rfl)]
      simp
    simp only [h2, h3, List.append_nil]

end empty

end Eos.Micro.L
