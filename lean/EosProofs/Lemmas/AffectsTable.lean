import EosProofs.Lemmas.AffectsTableL00
import EosProofs.Lemmas.AffectsTableL01
import EosProofs.Lemmas.AffectsTableL02
import EosProofs.Lemmas.AffectsTableL03
import EosProofs.Lemmas.AffectsTableL04
import EosProofs.Lemmas.AffectsTableL05
import EosProofs.Lemmas.AffectsTableL06
import EosProofs.Lemmas.AffectsTableL07
import EosProofs.Lemmas.AffectsTableL08
import EosProofs.Lemmas.AffectsTableL09
import EosProofs.Lemmas.AffectsTableL10
import EosProofs.Lemmas.AffectsTableL11
import EosProofs.Lemmas.AffectsTableL12
import EosProofs.Lemmas.AffectsTableL13
import EosProofs.Lemmas.AffectsTableL14
import EosProofs.Lemmas.AffectsTableP04
import EosProofs.Lemmas.AffectsTableP05
import EosProofs.Lemmas.AffectsTableP06
import EosProofs.Lemmas.AffectsTableP08
import EosGen.AffectsTable
/-! C02: the per-block kernel checks of the regenerated selection table (`AffectsTableL*`, `AffectsTableP*`)
put together: every case of the whole table passes `localCaseOk` / `projCaseOk`, and the table has exactly the
numbers of cases / of "modified" cases / of cases with a valid modifier the generator counted. -/
namespace Eos.C02
open Eos.AffectsSpec EosGen.AffectsTable

theorem localBlockOk_spec {rows : List LocalRow} {n k v : Nat} (h : localBlockOk rows n k v = true) :
    (∀ c ∈ localCasesOf rows, localCaseOk c = true) ∧ (localCasesOf rows).length = n ∧
      (localCasesOf rows).countP (·.modified) = k ∧ (localCasesOf rows).countP (·.valid) = v := by
  simp only [localBlockOk, Bool.and_eq_true, List.all_eq_true, beq_iff_eq] at h
  exact ⟨h.1.1.1.1, h.1.1.1.2, h.1.1.2, h.1.2⟩

theorem projBlockOk_spec {rows : List ProjRow} {n k v : Nat} (h : projBlockOk rows n k v = true) :
    (∀ c ∈ projCasesOf rows, projCaseOk c = true) ∧ (projCasesOf rows).length = n ∧
      (projCasesOf rows).countP (·.modified) = k ∧ (projCasesOf rows).countP (·.valid) = v := by
  simp only [projBlockOk, Bool.and_eq_true, List.all_eq_true, beq_iff_eq] at h
  exact ⟨h.1.1.1.1, h.1.1.1.2, h.1.1.2, h.1.2⟩

theorem local_cases_ok : ∀ c ∈ localCases, localCaseOk c = true := by
  intro c hc
  simp only [localCases, List.mem_flatMap] at hc
  obtain ⟨b, hb, hcb⟩ := hc
  simp only [localBlocks, List.mem_cons, List.not_mem_nil, or_false] at hb
  rcases hb with rfl | rfl | rfl | rfl | rfl | rfl | rfl | rfl | rfl | rfl | rfl | rfl | rfl | rfl | rfl
  · exact (localBlockOk_spec affects_blockL00_ok).1 c hcb
  · exact (localBlockOk_spec affects_blockL01_ok).1 c hcb
  · exact (localBlockOk_spec affects_blockL02_ok).1 c hcb
  · exact (localBlockOk_spec affects_blockL03_ok).1 c hcb
  · exact (localBlockOk_spec affects_blockL04_ok).1 c hcb
  · exact (localBlockOk_spec affects_blockL05_ok).1 c hcb
  · exact (localBlockOk_spec affects_blockL06_ok).1 c hcb
  · exact (localBlockOk_spec affects_blockL07_ok).1 c hcb
  · exact (localBlockOk_spec affects_blockL08_ok).1 c hcb
  · exact (localBlockOk_spec affects_blockL09_ok).1 c hcb
  · exact (localBlockOk_spec affects_blockL10_ok).1 c hcb
  · exact (localBlockOk_spec affects_blockL11_ok).1 c hcb
  · exact (localBlockOk_spec affects_blockL12_ok).1 c hcb
  · exact (localBlockOk_spec affects_blockL13_ok).1 c hcb
  · exact (localBlockOk_spec affects_blockL14_ok).1 c hcb

theorem proj_cases_ok : ∀ c ∈ projectedCases, projCaseOk c = true := by
  intro c hc
  simp only [projectedCases, List.mem_flatMap] at hc
  obtain ⟨b, hb, hcb⟩ := hc
  simp only [projectedBlocks, List.mem_cons, List.not_mem_nil, or_false] at hb
  rcases hb with rfl | rfl | rfl | rfl
  · exact (projBlockOk_spec affects_blockP04_ok).1 c hcb
  · exact (projBlockOk_spec affects_blockP05_ok).1 c hcb
  · exact (projBlockOk_spec affects_blockP06_ok).1 c hcb
  · exact (projBlockOk_spec affects_blockP08_ok).1 c hcb

theorem local_counts : localCases.length = localCaseCount ∧
    localCases.countP (·.modified) = localModifiedCount ∧ localCases.countP (·.valid) = localValidCount := by
  simp only [localCases, localBlocks, List.flatMap_cons, List.flatMap_nil, List.length_append, List.length_nil,
    List.countP_append, List.countP_nil,
    (localBlockOk_spec affects_blockL00_ok).2.1, (localBlockOk_spec affects_blockL00_ok).2.2.1,
    (localBlockOk_spec affects_blockL00_ok).2.2.2,
    (localBlockOk_spec affects_blockL01_ok).2.1, (localBlockOk_spec affects_blockL01_ok).2.2.1,
    (localBlockOk_spec affects_blockL01_ok).2.2.2,
    (localBlockOk_spec affects_blockL02_ok).2.1, (localBlockOk_spec affects_blockL02_ok).2.2.1,
    (localBlockOk_spec affects_blockL02_ok).2.2.2,
    (localBlockOk_spec affects_blockL03_ok).2.1, (localBlockOk_spec affects_blockL03_ok).2.2.1,
    (localBlockOk_spec affects_blockL03_ok).2.2.2,
    (localBlockOk_spec affects_blockL04_ok).2.1, (localBlockOk_spec affects_blockL04_ok).2.2.1,
    (localBlockOk_spec affects_blockL04_ok).2.2.2,
    (localBlockOk_spec affects_blockL05_ok).2.1, (localBlockOk_spec affects_blockL05_ok).2.2.1,
    (localBlockOk_spec affects_blockL05_ok).2.2.2,
    (localBlockOk_spec affects_blockL06_ok).2.1, (localBlockOk_spec affects_blockL06_ok).2.2.1,
    (localBlockOk_spec affects_blockL06_ok).2.2.2,
    (localBlockOk_spec affects_blockL07_ok).2.1, (localBlockOk_spec affects_blockL07_ok).2.2.1,
    (localBlockOk_spec affects_blockL07_ok).2.2.2,
    (localBlockOk_spec affects_blockL08_ok).2.1, (localBlockOk_spec affects_blockL08_ok).2.2.1,
    (localBlockOk_spec affects_blockL08_ok).2.2.2,
    (localBlockOk_spec affects_blockL09_ok).2.1, (localBlockOk_spec affects_blockL09_ok).2.2.1,
    (localBlockOk_spec affects_blockL09_ok).2.2.2,
    (localBlockOk_spec affects_blockL10_ok).2.1, (localBlockOk_spec affects_blockL10_ok).2.2.1,
    (localBlockOk_spec affects_blockL10_ok).2.2.2,
    (localBlockOk_spec affects_blockL11_ok).2.1, (localBlockOk_spec affects_blockL11_ok).2.2.1,
    (localBlockOk_spec affects_blockL11_ok).2.2.2,
    (localBlockOk_spec affects_blockL12_ok).2.1, (localBlockOk_spec affects_blockL12_ok).2.2.1,
    (localBlockOk_spec affects_blockL12_ok).2.2.2,
    (localBlockOk_spec affects_blockL13_ok).2.1, (localBlockOk_spec affects_blockL13_ok).2.2.1,
    (localBlockOk_spec affects_blockL13_ok).2.2.2,
    (localBlockOk_spec affects_blockL14_ok).2.1, (localBlockOk_spec affects_blockL14_ok).2.2.1,
    (localBlockOk_spec affects_blockL14_ok).2.2.2]
  decide

theorem proj_counts : projectedCases.length = projectedCaseCount ∧
    projectedCases.countP (·.modified) = projectedModifiedCount ∧
    projectedCases.countP (·.valid) = projectedValidCount := by
  simp only [projectedCases, projectedBlocks, List.flatMap_cons, List.flatMap_nil, List.length_append,
    List.length_nil, List.countP_append, List.countP_nil,
    (projBlockOk_spec affects_blockP04_ok).2.1, (projBlockOk_spec affects_blockP04_ok).2.2.1,
    (projBlockOk_spec affects_blockP04_ok).2.2.2,
    (projBlockOk_spec affects_blockP05_ok).2.1, (projBlockOk_spec affects_blockP05_ok).2.2.1,
    (projBlockOk_spec affects_blockP05_ok).2.2.2,
    (projBlockOk_spec affects_blockP06_ok).2.1, (projBlockOk_spec affects_blockP06_ok).2.2.1,
    (projBlockOk_spec affects_blockP06_ok).2.2.2,
    (projBlockOk_spec affects_blockP08_ok).2.1, (projBlockOk_spec affects_blockP08_ok).2.2.1,
    (projBlockOk_spec affects_blockP08_ok).2.2.2]
  decide

/-- Outside the domain the real code does leave the specification: in the block of the ship affector (local)
and of the high-module projector (projected) there is a case with a modifier the validation rejects where the
specification and the real code differ. -/
theorem local_disagreement :
    (localCasesOf blockL01).any (fun c => !c.valid && specLocal c != c.modified) = true := by
  decide +kernel

theorem proj_disagreement :
    (projCasesOf blockP04).any (fun c => !c.valid && specProjected c != c.modified) = true := by
  decide +kernel

theorem mem_localCases {b : List LocalRow} (hb : b ∈ localBlocks) {c : LocalCase} (hc : c ∈ localCasesOf b) :
    c ∈ localCases := List.mem_flatMap.2 ⟨b, hb, hc⟩

theorem mem_projectedCases {b : List ProjRow} (hb : b ∈ projectedBlocks) {c : ProjCase}
    (hc : c ∈ projCasesOf b) : c ∈ projectedCases := List.mem_flatMap.2 ⟨b, hb, hc⟩

end Eos.C02
