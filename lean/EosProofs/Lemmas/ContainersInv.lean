import EosProofs.Lemmas.ContainersOps
/-! Every operation of the container model preserves the ownership invariant I4 (`OwnInv`), the agreement
of keyed containers with their inner set (`KeyedInv`), and the agreement of fit sets with the fits'
back-references (`FitInv`).  Core Lean only. -/
namespace Eos.Containers

/-! ## I4 per operation -/

theorem contents_setList_items_eq {s : World} {f r : Nat} {l : List (Option Nat)} (h : items l = items (s.lists f r))
    (q : Place) : contents (s.setList f r l) q = contents s q := by
  rw [contents_setList]
  split
  · rename_i hq; subst hq; rw [h]; rfl
  · rfl

theorem OwnInv.rackAdd {s : World} {f r i : Nat} {l : List (Option Nat)} (h : OwnInv s) (hi : s.owner i = none)
    (hL : IsInsertion i (items (s.lists f r)) (items l)) (hnt : NoTrail l) :
    OwnInv ((s.setList f r l).setOwner i (some (.rack f r))) :=
  h.add (p := .rack f r) (L := items l) hi (fun q => by simp [contents_setList]) hL rfl
    (fun f' r' => by simpa using noTrail_setList h.noTrail hnt f' r')

theorem OwnInv.rackRemove {s : World} {f r i : Nat} {l : List (Option Nat)} (h : OwnInv s)
    (hL : IsInsertion i (items l) (items (s.lists f r))) (hnt : NoTrail l) :
    OwnInv ((s.setOwner i none).setList f r l) :=
  h.remove (p := .rack f r) (L := items l) (fun q => by simp [contents_setList]) hL rfl
    (fun f' r' => by simpa using noTrail_setList (s := s.setOwner i none) h.noTrail hnt f' r')

theorem OwnInv.rackSame {s : World} {f r : Nat} {l : List (Option Nat)} (h : OwnInv s)
    (hL : items l = items (s.lists f r)) (hnt : NoTrail l) : OwnInv (s.setList f r l) :=
  h.same (contents_setList_items_eq hL) rfl (noTrail_setList h.noTrail hnt)

theorem listInsert_own (U : Univ) {s : World} (h : OwnInv s) (f r : Nat) (index : Int) (v : Option Nat) :
    OwnInv (listInsert U s f r index v).2 := by
  rcases listInsert_cases U s f r index v (h.noTrail f r) with e | ⟨_, e⟩ | ⟨i, _, _, e⟩ | ⟨i, _, hi, e⟩ <;> rw [e]
  · exact h
  · exact h.rackSame (by simp) (noTrail_cleanup _)
  · exact h
  · refine h.rackAdd hi (by simpa using items_pyInsert_some (allocate (s.lists f r) (index - 1)) _ i) ?_
    rcases insPos_cases (s.lists f r) index with ha | hk
    · rw [ha]; exact noTrail_pyInsert_some (h.noTrail f r) _ _
    · rw [hk, pyInsert_length]; exact noTrail_append_some _ _

theorem listAppend_own (U : Univ) {s : World} (h : OwnInv s) (f r : Nat) (v : Option Nat) :
    OwnInv (listAppend U s f r v).2 := by
  rcases listAppend_cases U s f r v with e | ⟨i, _, _, e⟩ | ⟨i, _, hi, e⟩ <;> rw [e]
  · exact h
  · exact h
  · exact h.rackAdd hi ⟨items (s.lists f r), [], by simp, by simp⟩ (noTrail_append_some _ _)

theorem listPlace_own (U : Univ) {s : World} (h : OwnInv s) (f r : Nat) (index : Int) (v : Option Nat) :
    OwnInv (listPlace U s f r index v).2 := by
  rcases listPlace_cases U s f r index v (h.noTrail f r) with ⟨_, e⟩ | ⟨i, _, k, hp, hv, hi, e⟩ <;> rw [e]
  · exact h
  · refine h.rackAdd hi (by simpa using items_set_hole hv i) (noTrail_set_some ?_ i)
    by_cases hlt : index < (s.lists f r).length
    · left; rw [allocate_of_lt hlt]; exact h.noTrail f r
    · right
      have h0 : 0 ≤ index := by omega
      have := pyIndex_nonneg hp h0
      rw [allocate_length]; omega

theorem listEquip_own (U : Univ) {s : World} (h : OwnInv s) (f r : Nat) (v : Option Nat) :
    OwnInv (listEquip U s f r v).2 := by
  rcases listEquip_cases U s f r v (h.noTrail f r) with ⟨_, e⟩ | ⟨i, _, hi, ⟨k, hv, _, e⟩ | ⟨_, e⟩⟩ <;> rw [e]
  · exact h
  · exact h.rackAdd hi (items_set_hole hv i) (noTrail_set_some (Or.inl (h.noTrail f r)) i)
  · exact h.rackAdd hi ⟨items (s.lists f r), [], by simp, by simp⟩ (noTrail_append_some _ _)

theorem listRemoveAt_own {s : World} (h : OwnInv s) (f r k : Nat) (hk : k < (s.lists f r).length) :
    OwnInv (listRemoveAt s f r k).2 := by
  obtain ⟨x, hv⟩ : ∃ x, (s.lists f r)[k]? = some x := ⟨_, List.getElem?_eq_getElem hk⟩
  rw [listRemoveAt_eq s f r k x hv]
  cases x with
  | none => exact h.rackSame (by simpa using items_eraseIdx_none hv) (noTrail_cleanup _)
  | some i => exact h.rackRemove (by simpa using items_eraseIdx_some hv) (noTrail_cleanup _)

theorem listFreeAt_own {s : World} (h : OwnInv s) (f r k : Nat) (hk : k < (s.lists f r).length) :
    OwnInv (listFreeAt s f r k).2 := by
  obtain ⟨x, hv⟩ : ∃ x, (s.lists f r)[k]? = some x := ⟨_, List.getElem?_eq_getElem hk⟩
  rw [listFreeAt_eq s f r k x hv]
  cases x with
  | none => exact h
  | some i => exact h.rackRemove (by simpa using items_set_none hv) (noTrail_cleanup _)

theorem listAtIdx_own {act : World → Nat → Nat → Nat → Res} {s : World} (h : OwnInv s) (f r : Nat) (index : Int)
    (hact : ∀ k, k < (s.lists f r).length → OwnInv (act s f r k).2) : OwnInv (listAtIdx act s f r index).2 := by
  rcases listAtIdx_cases act s f r index with e | ⟨k, _, hk, e⟩ <;> rw [e]
  · exact h
  · exact hact k hk

theorem listAtVal_own {act : World → Nat → Nat → Nat → Res} {s : World} (h : OwnInv s) (f r : Nat) (v : Option Nat)
    (hact : ∀ k, k < (s.lists f r).length → OwnInv (act s f r k).2) : OwnInv (listAtVal act s f r v).2 := by
  rcases listAtVal_cases act s f r v with e | ⟨k, hk, _, e⟩ <;> rw [e]
  · exact h
  · exact hact k (lt_length_of_getElem? hk)

theorem listClear_own {s : World} (h : OwnInv s) (f r : Nat) : OwnInv (listClear s f r).2 :=
  h.clear (p := .rack f r) (fun q => by simp [listClear, contents_setList]) rfl
    (fun f' r' => by simpa [listClear] using noTrail_setList (s := s.dropOwners _) h.noTrail noTrail_nil f' r')

theorem setAdd_ok_eq {s : World} (h : OwnInv s) {c : SetId} {i : Nat} (hi : s.owner i = none) :
    (if i ∈ s.sets c then s.sets c else i :: s.sets c) = i :: s.sets c := by
  rw [if_neg]; exact h.not_mem_of_unowned hi (.set c)

theorem OwnInv.setAddCore {s : World} (h : OwnInv s) {c : SetId} {i : Nat} (hi : s.owner i = none) :
    OwnInv ((s.setSet c (i :: s.sets c)).setOwner i (some (.set c))) :=
  h.add (p := .set c) (L := i :: s.sets c) hi (fun q => by simp [contents_setSet]) (IsInsertion.cons i _) rfl
    (fun f r => by simpa using h.noTrail f r)

theorem setAdd_own (U : Univ) {s : World} (h : OwnInv s) (c : SetId) (v : Option Nat) : OwnInv (setAdd U s c v).2 := by
  rcases setAdd_cases U s c v with e | ⟨i, _, _, e⟩ | ⟨i, _, hi, e⟩ <;> rw [e]
  · exact h
  · exact h
  · rw [setAdd_ok_eq h hi]; exact h.setAddCore hi

theorem isInsertion_erase {i : Nat} {l : List Nat} (h : i ∈ l) : IsInsertion i (l.erase i) l := by
  obtain ⟨a, b, _, h1, h2⟩ := List.exists_erase_eq h
  exact ⟨a, b, h2, h1⟩

theorem OwnInv.setRemoveCore {s : World} (h : OwnInv s) {c : SetId} {i : Nat} (hm : i ∈ s.sets c) :
    OwnInv ((s.setOwner i none).setSet c ((s.sets c).erase i)) :=
  h.remove (p := .set c) (L := (s.sets c).erase i) (fun q => by simp [contents_setSet]) (isInsertion_erase hm) rfl
    (fun f r => by simpa using h.noTrail f r)

theorem setRemove_own {s : World} (h : OwnInv s) (c : SetId) (v : Option Nat) : OwnInv (setRemove s c v).2 := by
  rcases setRemove_cases s c v with e | ⟨i, _, hm, e⟩ <;> rw [e]
  · exact h
  · exact h.setRemoveCore hm

theorem setClear_own {s : World} (h : OwnInv s) (c : SetId) : OwnInv (setClear s c).2 :=
  h.clear (p := .set c) (fun q => by simp [setClear, contents_setSet]) rfl
    (fun f r => by simpa [setClear] using h.noTrail f r)

theorem OwnInv.setKeyed {s : World} (h : OwnInv s) (c : SetId) (l : List (Nat × Nat)) : OwnInv (s.setKeyed c l) :=
  h.same (fun q => by simp) rfl (fun f r => by simpa using h.noTrail f r)

theorem keyedAdd_own (U : Univ) {s : World} (h : OwnInv s) (c : SetId) (key : Nat) (v : Option Nat) :
    OwnInv (keyedAdd U s c key v).2 := by
  rcases keyedAdd_cases U s c key v with ⟨_, e⟩ | ⟨i, _, _, hi, e⟩ <;> rw [e]
  · exact h
  · have h1 := h.setKeyed c ((key, i) :: s.keyed c)
    have := h1.setAddCore (c := c) (i := i) (by simpa using hi)
    simpa [setAdd_ok_eq h hi] using this

theorem keyedRemove_own {s : World} (h : OwnInv s) (c : SetId) (key : Nat) (v : Option Nat) :
    OwnInv (keyedRemove s c key v).2 := by
  rcases keyedRemove_cases s c key v with e | ⟨i, _, hm, _, e⟩ | ⟨i, _, hm, _, e⟩ <;> rw [e]
  · exact h
  · exact h.setRemoveCore hm
  · exact (h.setRemoveCore hm).setKeyed c _

theorem tuAdd_own (U : Univ) {s : World} (h : OwnInv s) (f : Nat) (v : Option Nat) : OwnInv (tuAdd U s f v).2 := by
  unfold tuAdd; cases v with
  | none => exact h
  | some i => exact keyedAdd_own U h _ _ _

theorem tuRemove_own (U : Univ) {s : World} (h : OwnInv s) (f : Nat) (v : Option Nat) : OwnInv (tuRemove U s f v).2 := by
  unfold tuRemove; cases v with
  | none => exact h
  | some i => exact keyedRemove_own h _ _ _

theorem tuDel_own (U : Univ) {s : World} (h : OwnInv s) (f t : Nat) : OwnInv (tuDel U s f t).2 := by
  unfold tuDel; split
  · exact h
  · exact tuRemove_own U h _ _

theorem dictDel_own {s : World} (h : OwnInv s) (m key : Nat) : OwnInv (dictDel s m key).2 := by
  unfold dictDel; split
  · exact h
  · exact keyedRemove_own h _ _ _

theorem keyedClear_own {s : World} (h : OwnInv s) (c : SetId) : OwnInv (keyedClear s c).2 :=
  (setClear_own h c).setKeyed c []

/-- `ItemDescriptor.__set__`, closed form: typeError / valueError with the state restored, or the old item
released and the new one (if any) installed. -/
theorem assign_cases (U : Univ) {s : World} (h : OwnInv s) (c : SlotId) (v : Option Nat) :
    (∃ e, assign U s c v = (.error e, s)) ∨
    (v = none ∧ assign U s c v = (.ok, (match s.slots c with | some o => s.setOwner o none | none => s).setSlot c none)) ∨
    (∃ i, v = some i ∧ (s.owner i = none ∨ s.slots c = some i) ∧ assign U s c v =
      (.ok, (((match s.slots c with | some o => s.setOwner o none | none => s).setSlot c none).setSlot c (some i)).setOwner
        i (some (.slot c)))) := by
  unfold assign
  by_cases hc : checkClass U (.slot c) v true
  · simp only [hc, Bool.not_true, Bool.false_eq_true, if_false]
    cases v with
    | none => exact Or.inr (Or.inl ⟨rfl, rfl⟩)
    | some i =>
      simp only [setSlot_owner, setSlot_setSlot]
      cases hold : s.slots c with
      | none =>
        simp only
        cases ho : s.owner i with
        | none => exact Or.inr (Or.inr ⟨i, rfl, Or.inl ho, rfl⟩)
        | some p => left; exact ⟨_, by rw [← hold, setSlot_self]⟩
      | some o =>
        simp only [setOwner_owner]
        have hown : s.owner o = some (.slot c) := (h.mem_iff (.slot c) o).1 (by simp [contents, hold])
        by_cases hio : i = o
        · subst hio
          simp only [upd_same]
          exact Or.inr (Or.inr ⟨i, rfl, Or.inr rfl, rfl⟩)
        · rw [upd_other _ _ hio]
          cases ho : s.owner i with
          | none => exact Or.inr (Or.inr ⟨i, rfl, Or.inl ho, rfl⟩)
          | some p =>
            left
            refine ⟨.valueError, ?_⟩
            dsimp only
            congr 1
            apply World.ext <;> try rfl
            · simp [World.setSlot, World.setOwner, ← hold]
            · simp [World.setSlot, World.setOwner, ← hown]
  · left; exact ⟨.typeError, by simp [hc]⟩

theorem OwnInv.release {s : World} (h : OwnInv s) (c : SlotId) :
    OwnInv ((match s.slots c with | some o => s.setOwner o none | none => s).setSlot c none) := by
  cases hold : s.slots c with
  | none => simpa [← hold] using h
  | some o =>
    exact h.remove (p := .slot c) (L := []) (i := o) (fun q => by simp [contents_setSlot])
      ⟨[], [], rfl, by simp [contents, hold]⟩ rfl (fun f r => by simpa using h.noTrail f r)

theorem assign_own (U : Univ) {s : World} (h : OwnInv s) (c : SlotId) (v : Option Nat) : OwnInv (assign U s c v).2 := by
  rcases assign_cases U h c v with ⟨_, e⟩ | ⟨_, e⟩ | ⟨i, _, hi, e⟩ <;> rw [e]
  · exact h
  · exact h.release c
  · have hr := h.release c
    refine hr.add (p := .slot c) (L := [i]) ?_ (fun q => by by_cases hq : q = .slot c <;> simp [contents_setSlot, hq]) ?_ rfl
      (fun f r => by simpa using hr.noTrail f r)
    · cases hold : s.slots c with
      | none =>
        rcases hi with hi | hi
        · simpa using hi
        · rw [hold] at hi; cases hi
      | some o =>
        by_cases hio : i = o
        · subst hio; simp
        · rcases hi with hi | hi
          · simp [upd_other _ _ hio, hi]
          · rw [hold] at hi; cases hi; exact absurd rfl hio
    · exact ⟨[], [], by simp [contents], rfl⟩

end Eos.Containers
