import EosModel.Codec
/-! Helper lemmas about the cache-handler model: JSON normalisation commutes with decoding,
`__update_memory_cache` ignores the old memory, step-wise and partial-function readings agree. -/
namespace Eos.Codec
open PV

namespace PV
theorem normL_eq (l : List PV) : normL l = l.map norm := by
  induction l with
  | nil => simp [normL]
  | cons x xs ih => simp [normL, ih]

theorem normKV_eq (l : List (String × PV)) : normKV l = l.map fun p => (p.1, norm p.2) := by
  induction l with
  | nil => simp [normKV]
  | cons x xs ih => cases x; simp [normKV, ih]

@[simp] theorem norm_list (l : List PV) : norm (.list l) = .list (l.map norm) := by simp [norm, normL_eq]
@[simp] theorem norm_tuple (l : List PV) : norm (.tuple l) = .list (l.map norm) := by simp [norm, normL_eq]
@[simp] theorem norm_dict (kv) : norm (.dict kv) = .dict (kv.map fun p => (p.1, norm p.2)) := by simp [norm, normKV_eq]

@[simp] theorem norm_chr (c : Char) : (chr c).norm = chr c := rfl

@[simp] theorem truthy_norm (v : PV) : v.norm.truthy = v.truthy := by
  cases v <;> simp [norm, truthy, normL_eq, normKV_eq]

@[simp] theorem key?_norm (v : PV) : v.norm.key? = v.key? := by
  cases v <;> simp [norm, key?]

@[simp] theorem toInt?_norm (v : PV) : v.norm.toInt? = v.toInt? := by
  cases v <;> simp [norm, toInt?]

theorem iter?_norm (v : PV) : v.norm.iter? = v.iter?.map (List.map norm) := by
  cases v <;> simp [norm, iter?, normL_eq, normKV_eq, chr, Function.comp_def]

theorem index?_norm (v : PV) (n : Nat) : v.norm.index? n = (v.index? n).map norm := by
  cases v <;> simp [norm, index?, normL_eq]
  case str s => cases s.toList[n]? <;> simp

theorem get?_norm (v : PV) (k : String) : v.norm.get? k = (v.get? k).map norm := by
  cases v <;> simp [norm, get?, normKV_eq]
  case dict kv =>
    induction kv with
    | nil => simp
    | cons p ps ih => simp [List.find?_cons]; split <;> simp_all

theorem unpack2_norm (v : PV) : v.norm.unpack2 = v.unpack2.map fun p => (p.1.norm, p.2.norm) := by
  unfold unpack2
  rw [iter?_norm]
  rcases v.iter? with _ | l
  · simp
  · rcases l with _ | ⟨a, _ | ⟨b, _ | ⟨c, l⟩⟩⟩ <;> simp

theorem pairs?_norm (v : PV) : v.norm.pairs? = v.pairs?.map (List.map fun p => (p.1.norm, p.2.norm)) := by
  unfold pairs?
  rw [iter?_norm]
  rcases v.iter? with _ | l
  · simp
  · simp only [Option.map_some, Option.bind_eq_bind, Option.bind_some]
    induction l with
    | nil => simp
    | cons x xs ih => simp [List.mapM_cons, unpack2_norm, ih]; cases x.unpack2 <;> simp; cases List.mapM unpack2 xs <;> simp

end PV

namespace Dict
variable {α : Type}

theorem has_norm (f : α → α) (d : Dict α) (k : Key) : (Dict.norm f d).has k = d.has k := by
  simp [Dict.norm, has, List.any_map, Function.comp_def]

theorem find_norm (f : α → α) (d : Dict α) (k : Key) : (Dict.norm f d).find k = (d.find k).map f := by
  simp only [Dict.norm, find, List.find?_map, Function.comp_def, key?_norm]
  cases List.find? (fun p => p.1.key? == some k) d <;> simp

theorem set_norm (f : α → α) (d : Dict α) (k : PV) (v : α) :
    (Dict.norm f d).set k.norm (f v) = (d.set k v).map (Dict.norm f) := by
  unfold set
  rw [key?_norm]
  cases hk : k.key? with
  | none => simp
  | some kk =>
    simp only [has_norm, Option.map_some]
    split
    · simp [Dict.norm, Function.comp_def]; intro a b _; split <;> simp
    · simp [Dict.norm]

theorem foldlM_set_norm (f : α → α) (l : List (PV × α)) (acc : Dict α) :
    (l.map fun p => (p.1.norm, f p.2)).foldlM (fun (d : Dict α) p => d.set p.1 p.2) (Dict.norm f acc)
      = (l.foldlM (fun (d : Dict α) p => d.set p.1 p.2) acc).map (Dict.norm f) := by
  induction l generalizing acc with
  | nil => simp
  | cons p ps ih =>
    simp only [List.map_cons, List.foldlM_cons, set_norm]
    cases acc.set p.1 p.2 <;> simp [ih]

theorem ofPairs_norm (f : α → α) (l : List (PV × α)) :
    ofPairs (l.map fun p => (p.1.norm, f p.2)) = (ofPairs l).map (Dict.norm f) := by
  have := foldlM_set_norm f l []
  simpa [ofPairs, Dict.norm] using this

end Dict

theorem mapM_comm {α β : Type} (dec' dec : α → Option β) (g : α → α) (nf : β → β)
    (h : ∀ d, dec' (g d) = (dec d).map nf) (l : List α) :
    (l.map g).mapM dec' = (l.mapM dec).map (List.map nf) := by
  induction l with
  | nil => simp
  | cons x xs ih => simp [List.mapM_cons, h, ih]; cases dec x <;> simp; cases List.mapM dec xs <;> simp

theorem decompressModifier_norm (d : PV) : decompressModifier d.norm = (decompressModifier d).map Modifier.norm := by
  simp [decompressModifier, index?_norm, Option.map_bind, Option.bind_map, Function.comp_def, Modifier.norm]

theorem decompressBuff_norm (d : PV) : decompressBuff d.norm = (decompressBuff d).map Buff.norm := by
  simp [decompressBuff, index?_norm, Option.map_bind, Option.bind_map, Function.comp_def, Buff.norm]

theorem decompressAttr_norm (d : PV) : decompressAttr d.norm = (decompressAttr d).map Attr.norm := by
  simp [decompressAttr, index?_norm, Option.map_bind, Option.bind_map, Function.comp_def, Attr.norm]

theorem decompressEffect_norm (d : PV) : decompressEffect d.norm = (decompressEffect d).map Effect.norm := by
  simp [decompressEffect, index?_norm, iter?_norm, mapM_comm _ _ _ _ decompressModifier_norm, Option.map_bind,
    Option.bind_map, Function.comp_def, Effect.norm]

theorem getEffect_norm (st : Dict Effect) (eid : PV) :
    getEffect (Dict.norm Effect.norm st) eid.norm = (getEffect st eid).map Effect.norm := by
  simp [getEffect, Dict.find_norm, Option.map_bind, Function.comp_def]

theorem getDefault_norm (st : Dict Effect) (x : PV) :
    getDefault (Dict.norm Effect.norm st) x.norm = (getDefault st x).map (Option.map Effect.norm) := by
  have h := getEffect_norm st x
  cases x <;> simp only [norm, getDefault] at h ⊢ <;> simp [h, Function.comp_def]

theorem abilityPair_norm (p : PV × PV) :
    abilityPair (p.1.norm, p.2.norm) = (abilityPair p).map fun q => (q.1.norm, q.2.norm) := by
  simp [abilityPair, unpack2_norm, Option.map_bind, Option.bind_map, Function.comp_def, AbilityData.norm]

theorem effects_dict_norm (l : List Effect) :
    Dict.ofPairs (l.map fun e => (e.norm.id, e.norm))
      = (Dict.ofPairs (l.map fun e => (e.id, e))).map (Dict.norm Effect.norm) := by
  rw [← Dict.ofPairs_norm, List.map_map]; rfl

theorem decompressType_norm (st : Dict Effect) (d : PV) :
    decompressType (Dict.norm Effect.norm st) d.norm = (decompressType st d).map EType.norm := by
  simp [decompressType, index?_norm, iter?_norm, pairs?_norm, getDefault_norm, Dict.ofPairs_norm,
    mapM_comm _ _ _ _ (getEffect_norm st), mapM_comm _ _ _ _ abilityPair_norm, effects_dict_norm,
    Option.map_bind, Option.bind_map, Function.comp_def, EType.norm]

theorem stepEffect_norm (m : Mem) (d : PV) : stepEffect m.norm d.norm = (stepEffect m d).map Mem.norm := by
  simp only [stepEffect, decompressEffect_norm, Option.bind_eq_bind, Option.bind_map, Function.comp_def, Option.map_bind]
  congr 1; funext e
  have := Dict.set_norm Effect.norm m.effects e.id e
  simp only [Mem.norm] at *
  show ((Dict.norm Effect.norm m.effects).set e.id.norm e.norm).bind _ = _
  rw [this]; cases m.effects.set e.id e <;> simp [Mem.norm]

theorem stepAttr_norm (m : Mem) (d : PV) : stepAttr m.norm d.norm = (stepAttr m d).map Mem.norm := by
  simp only [stepAttr, decompressAttr_norm, Option.bind_eq_bind, Option.bind_map, Function.comp_def, Option.map_bind]
  congr 1; funext e
  have := Dict.set_norm Attr.norm m.attrs e.id e
  simp only [Mem.norm] at *
  show ((Dict.norm Attr.norm m.attrs).set e.id.norm e.norm).bind _ = _
  rw [this]; cases m.attrs.set e.id e <;> simp [Mem.norm]

theorem stepType_norm (m : Mem) (d : PV) : stepType m.norm d.norm = (stepType m d).map Mem.norm := by
  simp only [stepType, Option.bind_eq_bind]
  show (decompressType (Dict.norm Effect.norm m.effects) d.norm).bind _ = _
  simp only [decompressType_norm, Option.bind_map, Function.comp_def, Option.map_bind]
  congr 1; funext e
  have := Dict.set_norm EType.norm m.types e.id e
  simp only [Mem.norm] at *
  show ((Dict.norm EType.norm m.types).set e.id.norm e.norm).bind _ = _
  rw [this]; cases m.types.set e.id e <;> simp [Mem.norm]

theorem addBuff_norm (s : Dict (List Buff)) (b : Buff) :
    addBuff (Dict.norm (List.map Buff.norm) s) b.norm = (addBuff s b).map (Dict.norm (List.map Buff.norm)) := by
  simp only [addBuff, Option.bind_eq_bind]
  show (b.buffId.norm.key?).bind _ = _
  rw [key?_norm]
  cases b.buffId.key? with
  | none => simp
  | some k =>
    simp only [Option.bind_some, Dict.find_norm]
    have := Dict.set_norm (List.map Buff.norm) s b.buffId ((s.find k).getD [] ++ [b])
    rw [← this]
    show _ = (Dict.norm (List.map Buff.norm) s).set b.buffId.norm _
    congr 1
    cases s.find k <;> simp

theorem stepBuff_norm (m : Mem) (d : PV) : stepBuff m.norm d.norm = (stepBuff m d).map Mem.norm := by
  simp only [stepBuff, decompressBuff_norm, Option.bind_eq_bind, Option.bind_map, Function.comp_def, Option.map_bind]
  congr 1; funext e
  have := addBuff_norm m.buffs e
  simp only [Mem.norm] at *
  rw [this]; cases addBuff m.buffs e <;> simp [Mem.norm]

theorem fillWith_norm (step : Mem → PV → Option Mem) (h : ∀ m d, step m.norm d.norm = (step m d).map Mem.norm)
    (m : Mem) (ds : List PV) :
    fillWith step m.norm (ds.map norm) = ((fillWith step m ds).1.norm, (fillWith step m ds).2) := by
  induction ds generalizing m with
  | nil => simp [fillWith]
  | cons d ds ih =>
    simp only [List.map_cons, fillWith, h]
    cases step m d <;> simp [ih]

theorem loop_norm (j : PV) (key : String) (step : Mem → PV → Option Mem)
    (h : ∀ m d, step m.norm d.norm = (step m d).map Mem.norm) (m : Mem) :
    loop j.norm key step m.norm = ((loop j key step m).1.norm, (loop j key step m).2) := by
  simp only [loop, get?_norm, Option.bind_map, Function.comp_def, iter?_norm]
  cases j.get? key with
  | none => simp
  | some v => cases hv : v.iter? <;> simp [hv, fillWith_norm step h]

theorem fill_norm (m : Mem) (j : PV) : fill m.norm j.norm = ((fill m j).1.norm, (fill m j).2) := by
  have hc : m.norm.clearStorages = m.clearStorages.norm := rfl
  simp only [fill, hc, loop_norm j _ _ stepEffect_norm, loop_norm j _ _ stepType_norm, loop_norm j _ _ stepAttr_norm,
    loop_norm j _ _ stepBuff_norm, get?_norm]
  repeat' split
  all_goals simp_all [Mem.norm]

theorem stepEffect_setFp (f : PV) (m : Mem) (d : PV) : stepEffect (m.setFp f) d = (stepEffect m d).map (·.setFp f) := by
  simp only [stepEffect, Mem.setFp, Option.bind_eq_bind, Option.map_bind, Function.comp_def]
  congr 1
theorem stepType_setFp (f : PV) (m : Mem) (d : PV) : stepType (m.setFp f) d = (stepType m d).map (·.setFp f) := by
  simp only [stepType, Mem.setFp, Option.bind_eq_bind, Option.map_bind, Function.comp_def]
  congr 1
theorem stepAttr_setFp (f : PV) (m : Mem) (d : PV) : stepAttr (m.setFp f) d = (stepAttr m d).map (·.setFp f) := by
  simp only [stepAttr, Mem.setFp, Option.bind_eq_bind, Option.map_bind, Function.comp_def]
  congr 1
theorem stepBuff_setFp (f : PV) (m : Mem) (d : PV) : stepBuff (m.setFp f) d = (stepBuff m d).map (·.setFp f) := by
  simp only [stepBuff, Mem.setFp, Option.bind_eq_bind, Option.map_bind, Function.comp_def]
  congr 1

theorem fillWith_setFp (step : Mem → PV → Option Mem) (f : PV)
    (h : ∀ m d, step (m.setFp f) d = (step m d).map (·.setFp f)) (m : Mem) (ds : List PV) :
    fillWith step (m.setFp f) ds = ((fillWith step m ds).1.setFp f, (fillWith step m ds).2) := by
  induction ds generalizing m with
  | nil => simp [fillWith]
  | cons d ds ih => simp only [fillWith, h]; cases step m d <;> simp [ih]

theorem loop_setFp (j : PV) (key : String) (step : Mem → PV → Option Mem) (f : PV)
    (h : ∀ m d, step (m.setFp f) d = (step m d).map (·.setFp f)) (m : Mem) :
    loop j key step (m.setFp f) = ((loop j key step m).1.setFp f, (loop j key step m).2) := by
  simp only [loop]
  cases (j.get? key).bind iter? <;> simp [fillWith_setFp step f h]

/-- `__update_memory_cache` never reads the old memory: apart from the fingerprint that survives a
    failure, its outcome is that of running it on an empty memory. -/
theorem fill_eq (m : Mem) (j : PV) :
    fill m j = if (fill Mem.empty j).2 then fill Mem.empty j else ((fill Mem.empty j).1.setFp m.fingerprint, false) := by
  have hc : m.clearStorages = Mem.empty.clearStorages.setFp m.fingerprint := rfl
  simp only [fill, hc, loop_setFp j _ _ _ (stepEffect_setFp _), loop_setFp j _ _ _ (stepType_setFp _),
    loop_setFp j _ _ _ (stepAttr_setFp _), loop_setFp j _ _ _ (stepBuff_setFp _)]
  repeat' split
  all_goals simp_all [Mem.setFp]


theorem fillWith_foldlM (step : Mem → PV → Option Mem) (m : Mem) (ds : List PV) :
    ds.foldlM step m = ok? (fillWith step m ds) := by
  induction ds generalizing m with
  | nil => simp [fillWith, ok?]
  | cons d ds ih => simp only [List.foldlM_cons, fillWith]; cases step m d <;> simp [ih, ok?]

theorem loopO_eq (j : PV) (key : String) (step : Mem → PV → Option Mem) (m : Mem) :
    loopO j key step m = ok? (loop j key step m) := by
  simp only [loopO, loop, Option.bind_eq_bind, ← Option.bind_assoc]
  cases (j.get? key).bind iter? <;> simp [fillWith_foldlM, ok?]

/-- The statement-by-statement reading and the partial-function reading agree. -/
theorem full_eq_fill (j : PV) : full j = ok? (fill Mem.empty j) := by
  have hc : Mem.empty.clearStorages = Mem.empty := rfl
  simp only [full, loopO_eq, fill, hc]
  rcases loop j "effects" stepEffect Mem.empty with ⟨m1, _ | _⟩ <;> simp [ok?]
  rcases loop j "types" stepType m1 with ⟨m2, _ | _⟩ <;> simp
  rcases loop j "attrs" stepAttr m2 with ⟨m3, _ | _⟩ <;> simp
  rcases loop j "buff_templates" stepBuff m3 with ⟨m4, _ | _⟩ <;> simp
  cases j.get? "fingerprint" <;> simp
theorem mapM_map_eq {α β γ : Type} (comp : α → β) (dec : β → Option γ) (g : α → γ) (l : List α)
    (h : ∀ x ∈ l, dec (comp x) = some (g x)) : (l.map comp).mapM dec = some (l.map g) := by
  induction l with
  | nil => simp
  | cons x xs ih =>
    simp only [List.map_cons, List.mapM_cons]
    rw [h x (by simp), ih (fun y hy => h y (by simp [hy]))]; rfl

theorem mapM_map_some {α β : Type} (comp : α → β) (dec : β → Option α) (l : List α)
    (h : ∀ x ∈ l, dec (comp x) = some x) : (l.map comp).mapM dec = some l := by
  simpa using mapM_map_eq comp dec id l (by simpa using h)

namespace Dict
variable {α : Type}

theorem has_false_of_not_mem (d : Dict α) (k : Key) (h : some k ∉ d.map fun p => p.1.key?) : d.has k = false := by
  simp only [has, List.any_eq_false, beq_iff_eq]
  intro p hp heq
  exact h (List.mem_map.mpr ⟨p, hp, heq⟩)

theorem set_new (d : Dict α) (p : PV × α) (k : Key) (hk : p.1.key? = some k)
    (h : some k ∉ d.map fun p => p.1.key?) : d.set p.1 p.2 = some (d ++ [p]) := by
  simp [set, hk, has_false_of_not_mem d k h]

theorem foldlM_set_wf (l acc : Dict α) (h : WF (acc ++ l)) :
    l.foldlM (fun (d : Dict α) p => d.set p.1 p.2) acc = some (acc ++ l) := by
  induction l generalizing acc with
  | nil => simp
  | cons p ps ih =>
    obtain ⟨hn, hs⟩ := h
    have hk : p.1.key? ≠ none := hs p (by simp)
    obtain ⟨kk, hkk⟩ := Option.ne_none_iff_exists'.mp hk
    have hnot : some kk ∉ acc.map fun p => p.1.key? := by
      rw [List.map_append, List.map_cons, List.nodup_append] at hn
      intro hmem
      exact hn.2.2 _ hmem _ (by simp [hkk]) rfl
    have hwf : WF ((acc ++ [p]) ++ ps) := by rw [List.append_assoc]; exact ⟨hn, hs⟩
    rw [List.foldlM_cons, set_new acc p kk hkk hnot]
    simpa [List.append_assoc] using ih (acc ++ [p]) hwf

/-- Building a dict from the items of a dict gives that dict back. -/
theorem ofPairs_wf (d : Dict α) (h : WF d) : ofPairs d = some d := by
  simpa [ofPairs] using foldlM_set_wf d [] (by simpa using h)

end Dict

theorem decompress_compress_modifier' (m : Modifier) : decompressModifier (compressModifier m) = some m := rfl
theorem decompress_compress_buff' (b : Buff) : decompressBuff (compressBuff b) = some b := rfl
theorem decompress_compress_attr' (a : Attr) : decompressAttr (compressAttr a) = some a := rfl

theorem decompress_compress_effect' (e : Effect) : decompressEffect (compressEffect e) = some e := by
  have h := mapM_map_some compressModifier decompressModifier e.modifiers (fun x _ => rfl)
  simp [decompressEffect, compressEffect, index?, iter?, h, truthy]

theorem pairs?_items (d : Dict PV) : (PV.tuple (d.map fun p => .tuple [p.1, p.2])).pairs? = some d := by
  simp only [pairs?, iter?, Option.bind_eq_bind, Option.bind_some]
  exact mapM_map_some _ _ d (fun x _ => rfl)

theorem abilities_pairs (d : Dict AbilityData) :
    (PV.tuple (d.map fun p => .tuple [p.1, .tuple [p.2.cooldownTime, p.2.chargeQuantity]])).pairs?
      = some (d.map fun p => (p.1, PV.tuple [p.2.cooldownTime, p.2.chargeQuantity])) := by
  simp only [pairs?, iter?, Option.bind_eq_bind, Option.bind_some]
  exact mapM_map_eq _ _ _ d (fun x _ => rfl)

theorem abilities_mapM (d : Dict AbilityData) :
    d.mapM (abilityPair ∘ fun p => (p.1, PV.tuple [p.2.cooldownTime, p.2.chargeQuantity])) = some d := by
  have := mapM_map_some (fun p : PV × AbilityData => (p.1, PV.tuple [p.2.cooldownTime, p.2.chargeQuantity]))
    abilityPair d (fun x _ => rfl)
  simpa [List.mapM_map] using this

theorem decompress_compress_type' (store : Dict Effect) (t : EType) (h : TypeOK store t) :
    decompressType store (compressType t) = some t := by
  have heffs : (t.effects.map (·.1)).mapM (getEffect store) = some (t.effects.map (·.2)) := by
    exact mapM_map_eq _ _ _ _ (fun p hp => (h.effKeys p hp).2)
  have hdict : (t.effects.map (·.2)).map (fun e => (e.id, e)) = t.effects := by
    rw [List.map_map]
    conv => rhs; rw [← List.map_id t.effects]
    apply List.map_congr_left
    intro p hp
    simp [← (h.effKeys p hp).1]
  simp [decompressType, compressType, index?, iter?, pairs?_items, heffs, hdict, abilities_pairs, abilities_mapM,
    Dict.ofPairs_wf _ h.attrs, Dict.ofPairs_wf _ h.effects, Dict.ofPairs_wf _ h.abilities, Dict.ofPairs_wf _ h.skills]
  cases hd : t.defaultEffect with
  | none => cases t; simp_all [getDefault]
  | some e => cases t; simp_all [h.default e hd]
namespace Dict
variable {α : Type}
theorem wf_mid (acc ps : Dict α) (p : PV × α) (h : WF (acc ++ p :: ps)) :
    ∃ kk, p.1.key? = some kk ∧ some kk ∉ acc.map fun p => p.1.key? := by
  obtain ⟨hn, hs⟩ := h
  have hk : p.1.key? ≠ none := hs p (by simp)
  obtain ⟨kk, hkk⟩ := Option.ne_none_iff_exists'.mp hk
  refine ⟨kk, hkk, ?_⟩
  rw [List.map_append, List.map_cons, List.nodup_append] at hn
  intro hmem
  exact hn.2.2 _ hmem _ (by simp [hkk]) rfl
end Dict

/-- One storage loop over compressed originals appends them, keyed by id, to the storage. -/
theorem foldlM_store {α : Type} (comp : α → PV) (id : α → PV) (get : Mem → Dict α) (put : Mem → Dict α → Mem)
    (step : Mem → PV → Option Mem) (P : Mem → Prop)
    (hget : ∀ m d, get (put m d) = d) (hpg : ∀ m, put m (get m) = m) (hput : ∀ m d d', put (put m d) d' = put m d') (hP : ∀ m d, P m → P (put m d))
    (l : List α) (hstep : ∀ m x, P m → x ∈ l → step m (comp x) = ((get m).set (id x) x).map (put m))
    (m : Mem) (hm : P m) (hwf : Dict.WF (get m ++ byId id l)) :
    (l.map comp).foldlM step m = some (put m (get m ++ byId id l)) := by
  induction l generalizing m with
  | nil => simp [byId, hpg]
  | cons x xs ih =>
    obtain ⟨kk, hk, hnot⟩ := Dict.wf_mid (get m) (byId id xs) (id x, x) hwf
    rw [List.map_cons, List.foldlM_cons, hstep m x hm (by simp), Dict.set_new (get m) (id x, x) kk hk hnot]
    simp only [Option.map_some, Option.bind_eq_bind, Option.bind_some]
    rw [ih (fun m y hm hy => hstep m y hm (by simp [hy])) _ (hP _ _ hm)]
    · simp [hget, hput, byId, List.append_assoc]
    · simpa [hget, byId, List.append_assoc] using hwf

theorem foldlM_effects (l : List Effect) (m : Mem) (hwf : Dict.WF (m.effects ++ byId Effect.id l)) :
    (l.map compressEffect).foldlM stepEffect m = some { m with effects := m.effects ++ byId Effect.id l } :=
  foldlM_store compressEffect Effect.id (·.effects) (fun m d => { m with effects := d }) stepEffect (fun _ => True)
    (fun _ _ => rfl) (fun _ => rfl) (fun _ _ _ => rfl) (fun _ _ _ => trivial) l
    (fun m x _ _ => by simp [stepEffect, decompress_compress_effect']; cases m.effects.set x.id x <;> rfl) m trivial hwf

theorem foldlM_attrs (l : List Attr) (m : Mem) (hwf : Dict.WF (m.attrs ++ byId Attr.id l)) :
    (l.map compressAttr).foldlM stepAttr m = some { m with attrs := m.attrs ++ byId Attr.id l } :=
  foldlM_store compressAttr Attr.id (·.attrs) (fun m d => { m with attrs := d }) stepAttr (fun _ => True)
    (fun _ _ => rfl) (fun _ => rfl) (fun _ _ _ => rfl) (fun _ _ _ => trivial) l
    (fun m x _ _ => by simp [stepAttr, decompress_compress_attr']; cases m.attrs.set x.id x <;> rfl) m trivial hwf

theorem foldlM_types (store : Dict Effect) (l : List EType) (hok : ∀ t ∈ l, TypeOK store t) (m : Mem)
    (hm : m.effects = store) (hwf : Dict.WF (m.types ++ byId EType.id l)) :
    (l.map compressType).foldlM stepType m = some { m with types := m.types ++ byId EType.id l } :=
  foldlM_store compressType EType.id (·.types) (fun m d => { m with types := d }) stepType (fun m => m.effects = store)
    (fun _ _ => rfl) (fun _ => rfl) (fun _ _ _ => rfl) (fun _ _ h => h) l
    (fun m x hm hx => by
      simp [stepType, hm, decompress_compress_type' store x (hok x hx)]; cases m.types.set x.id x <;> rfl) m hm hwf

theorem foldlM_buffs (l : List Buff) (m : Mem) :
    (l.map compressBuff).foldlM stepBuff m = (l.foldlM addBuff m.buffs).map fun s => { m with buffs := s } := by
  induction l generalizing m with
  | nil => simp
  | cons b bs ih =>
    simp only [List.map_cons, List.foldlM_cons, stepBuff, decompress_compress_buff', Option.bind_eq_bind, Option.bind_some]
    cases addBuff m.buffs b <;> simp [ih]

theorem cacheData_effects (o : Objs) (fp : PV) : (cacheData o fp).get? "effects" = some (.list (o.effects.map compressEffect)) := by
  simp [cacheData, get?]
theorem cacheData_types (o : Objs) (fp : PV) : (cacheData o fp).get? "types" = some (.list (o.types.map compressType)) := by
  simp [cacheData, get?]
theorem cacheData_attrs (o : Objs) (fp : PV) : (cacheData o fp).get? "attrs" = some (.list (o.attrs.map compressAttr)) := by
  simp [cacheData, get?]
theorem cacheData_buffs (o : Objs) (fp : PV) : (cacheData o fp).get? "buff_templates" = some (.list (o.buffs.map compressBuff)) := by
  simp [cacheData, get?]
theorem cacheData_fp (o : Objs) (fp : PV) : (cacheData o fp).get? "fingerprint" = some fp := by
  simp [cacheData, get?]

/-- Lossless at the level of whole object sets: a well-structured tree built by `update_cache`
    decodes to exactly the objects handed in, each under its id, and the given fingerprint. -/
theorem full_cacheData (o : Objs) (fp : PV) (h : Closed o) :
    full (cacheData o fp) = (groupBuffs o.buffs).map fun g =>
      ⟨byId EType.id o.types, byId Attr.id o.attrs, byId Effect.id o.effects, g, fp⟩ := by
  have he := foldlM_effects o.effects Mem.empty (by simpa [Mem.empty] using h.effectIds)
  have ht := foldlM_types (byId Effect.id o.effects) o.types h.types
    { Mem.empty with effects := Mem.empty.effects ++ byId Effect.id o.effects } (by simp [Mem.empty])
    (by simpa [Mem.empty] using h.typeIds)
  have ha := fun m hm => foldlM_attrs o.attrs m hm
  simp only [full, loopO, cacheData_effects, cacheData_types, cacheData_attrs, cacheData_buffs, cacheData_fp, iter?,
    Option.bind_eq_bind, Option.bind_some, he, ht, foldlM_buffs]
  simp only [Mem.empty, List.nil_append] at *
  rw [ha _ (by simpa using h.attrIds)]
  simp only [Option.bind_some, List.nil_append, groupBuffs]
  cases List.foldlM addBuff [] o.buffs <;> simp
theorem foldlM_all_steps {σ δ : Type} (step : σ → δ → Option σ) (ds : List δ) (m m' : σ) (h : ds.foldlM step m = some m') :
    ∀ d ∈ ds, ∃ m₀, (step m₀ d).isSome := by
  induction ds generalizing m with
  | nil => intro d hd; cases hd
  | cons x xs ih =>
    rw [List.foldlM_cons] at h
    cases hs : step m x with
    | none => simp [hs] at h
    | some m1 =>
      simp [hs] at h
      intro d hd
      rcases List.mem_cons.mp hd with rfl | hd
      · exact ⟨m, by simp [hs]⟩
      · exact ih m1 h d hd

theorem loopO_all_steps (j : PV) (key : String) (step : Mem → PV → Option Mem) (m m' : Mem)
    (h : loopO j key step m = some m') :
    ∃ ds, (j.get? key).bind iter? = some ds ∧ ∀ d ∈ ds, ∃ m₀, (step m₀ d).isSome := by
  simp only [loopO, Option.bind_eq_bind] at h
  cases hg : j.get? key with
  | none => simp [hg] at h
  | some v =>
    cases hi : v.iter? with
    | none => simp [hg, hi] at h
    | some ds =>
      simp [hg, hi] at h
      exact ⟨ds, by simp [hi], foldlM_all_steps step ds m m' h⟩
end Eos.Codec
