import EosGen.AffectsTableP04
/-! C02: on every case of the regenerated projected table whose projector class has number 04
(`Eos.World.Kind.ofNat?`), the specification's `affectsProjected` gives the answer the real code gave; the block
has exactly the generated number of cases, of "modified" cases and of cases with a valid modifier (kernel evaluation; one file per projector
class so the checks run in parallel). -/
namespace Eos.C02
open Eos.AffectsSpec EosGen.AffectsTable

theorem affects_blockP04_ok : projBlockOk blockP04 blockP04Cases blockP04Modified blockP04Valid = true := by decide +kernel

end Eos.C02
