import EosGen.AffectsTableP05
/-! C02: on every case of the regenerated projected table whose projector class has number 05
(`Eos.World.Kind.ofNat?`), the specification's `affectsProjected` gives the answer the real code gave; the block
has exactly the generated number of cases, of "modified" cases and of cases with a valid modifier (kernel evaluation; one file per projector
class so the checks run in parallel). -/
namespace Eos.C02
open Eos.AffectsSpec EosGen.AffectsTable

theorem affects_blockP05_ok : projBlockOk blockP05 blockP05Cases blockP05Modified blockP05Valid = true := by decide +kernel

end Eos.C02
