import EosModel.WorldMicro
import EosProofs.Lemmas.DepCache
import EosProofs.Lemmas.WorldWF
/-! The message-level model (`EosModel/WorldMicro.lean`) is an instance of the generic dependency graph of
`Lemmas/DepCache.lean`: what `deps` lists, locality of `evalD` in exactly those nodes, and the decrease of
the universe's rank along `deps` for a rank-well-formed universe.  No `Nodup` hypothesis is needed here:
`item?` / `attrMeta?` pick the first entry with an id, and `readerOf` sees an item only through its id,
kind and level.  No hypothesis on buff effects either: the warfare-buff payload `Dyn.bspecs` enters the specs
only through `bspecOK` (source = a warfare-buff attribute, target = the target of a buff template), and
`rankWF` ranks exactly those reads (`reads_buff`, `reads_resist`), so *every* dynamic state has a ranked
dependency graph. -/
namespace Eos.Micro
open Eos.World Eos.Calc

variable {u : Universe} {cfg : Config} {d : Dyn}

theorem find?_id_of_mem : ∀ {l : List Item}, (l.map (·.id)).Nodup → ∀ {y : Item}, y ∈ l →
    l.find? (·.id == y.id) = some y
  | [], _, _, hy => by cases hy
  | a :: l, hc, y, hy => by
    rw [List.map_cons, List.nodup_cons] at hc
    rcases List.mem_cons.1 hy with rfl | hy'
    · simp
    · have hne : a.id ≠ y.id := fun h => hc.1 (h ▸ List.mem_map.2 ⟨y, hy', rfl⟩)
      rw [List.find?_cons_of_neg (by simpa using hne)]
      exact find?_id_of_mem hc.2 hy'

/-- With unique ids a configured item is what its id resolves to. -/
theorem item?_of_mem (hc : UniqueIds cfg) {y : Item} (hy : y ∈ cfg.items) : item? cfg y.id = some y :=
  find?_id_of_mem hc hy

/-! ## Where specs come from -/

theorem typeEffects_mem {a : Item} {e : Effect} (h : e ∈ typeEffects u d a) :
    e ∈ u.effects ∧ effect? u e.id = some e := by
  unfold typeEffects at h
  split at h
  · cases h
  · obtain ⟨i, _, hi⟩ := List.mem_filterMap.1 h
    have hid : e.id = i := by simpa using List.find?_some hi
    exact ⟨List.mem_of_find?_eq_some hi, hid ▸ hi⟩

theorem running_mem {a : Item} {e : Effect} (h : e ∈ running u d a) :
    e ∈ u.effects ∧ effect? u e.id = some e :=
  typeEffects_mem (List.mem_filter.1 h).1

theorem mem_localSpecs {a : Item} {s : Spec} : s ∈ localSpecs u d a ↔
    ∃ e ∈ running u d a, ∃ m ∈ e.mods, m.domain ≠ 4 ∧ s = ⟨a, e, m, none⟩ := by
  simp only [localSpecs, List.mem_flatMap, List.mem_map, List.mem_filter, bne_iff_ne, ne_eq]
  constructor
  · rintro ⟨e, he, m, ⟨hm, hd⟩, rfl⟩; exact ⟨e, he, m, hm, hd, rfl⟩
  · rintro ⟨e, he, m, hm, hd, rfl⟩; exact ⟨e, he, m, ⟨hm, hd⟩, rfl⟩

/-- Projected modifiers of an effect: its own target-domain modifiers, and for a fleet-boost effect the
well-formed part of the registered warfare-buff payload. -/
theorem mem_projMods {a : Item} {e : Effect} {m : Modifier} : m ∈ projMods u d a e ↔
    (m ∈ e.mods ∧ m.domain = 4) ∨ (e.isBuff = true ∧ m ∈ d.bspecs a.id e.id ∧ bspecOK u m = true) := by
  unfold projMods
  cases hbf : e.isBuff <;> simp [List.mem_filter]

/-- Without the fleet-boost flag the projected modifiers are the effect's own. -/
theorem projMods_of_not_buff (a : Item) {e : Effect} (hbf : e.isBuff = false) :
    projMods u d a e = e.mods.filter (·.domain == 4) := by
  unfold projMods; simp [hbf]

/-- What a well-formed payload modifier is. -/
theorem bspecOK_iff {m : Modifier} : bspecOK u m = true ↔
    m.domain = 4 ∧ m.srcAttr ∈ buffAttrs ∧ u.buffs.any (·.tgtAttr == m.tgtAttr) = true := by
  simp only [bspecOK, Bool.and_eq_true, beq_iff_eq, List.contains_iff_mem, and_assoc]

theorem projMods_domain {a : Item} {e : Effect} {m : Modifier} (h : m ∈ projMods u d a e) : m.domain = 4 := by
  rcases mem_projMods.1 h with ⟨_, h⟩ | ⟨_, _, h⟩
  · exact h
  · exact (bspecOK_iff.1 h).1

theorem mem_projSpecs {a : Item} {s : Spec} : s ∈ projSpecs u cfg d a ↔
    ∃ e ∈ running u d a, (e.category = 2 ∨ e.isBuff = true) ∧ ∃ t ∈ targetsOf cfg d a e,
      ∃ m ∈ projMods u d a e, s = ⟨a, e, m, some t⟩ := by
  simp only [projSpecs, List.mem_flatMap]
  constructor
  · rintro ⟨e, he, hs⟩
    split at hs
    · rename_i hc
      simp only [List.mem_flatMap, List.mem_map, Bool.or_eq_true, beq_iff_eq] at hs hc
      obtain ⟨t, ht, m, hm, rfl⟩ := hs
      exact ⟨e, he, hc, t, ht, m, hm, rfl⟩
    · cases hs
  · rintro ⟨e, he, hc, t, ht, m, hm, rfl⟩
    refine ⟨e, he, ?_⟩
    rw [if_pos (by simpa using hc)]
    simp only [List.mem_flatMap, List.mem_map]
    exact ⟨t, ht, m, hm, rfl⟩

/-- Every spec acting on `(x, attr)` is carried by a configured item, belongs to one of its running
effects (an effect of the universe, resolved by its id) and is one of that effect's modifiers — or, for a
fleet-boost effect, a well-formed modifier of the warfare-buff payload registered for the projector. -/
theorem specsOn_mem {x : Item} {tx : ItemType} {attr : Int} {s : Spec} (h : s ∈ specsOn u cfg d x tx attr) :
    s.a ∈ cfg.items ∧ s.e ∈ running u d s.a ∧
      (s.m ∈ s.e.mods ∨ (s.e.isBuff = true ∧ s.m ∈ d.bspecs s.a.id s.e.id ∧ bspecOK u s.m = true)) ∧
      s.m.tgtAttr = attr ∧ selects cfg s x tx = true := by
  simp only [specsOn, allSpecs, List.mem_filter, List.mem_flatMap, List.mem_append, Bool.and_eq_true,
    beq_iff_eq] at h
  obtain ⟨⟨a, ha, hs⟩, ht, hsel⟩ := h
  rcases hs with hs | hs
  · obtain ⟨e, he, m, hm, _, rfl⟩ := mem_localSpecs.1 hs
    exact ⟨ha, he, Or.inl hm, ht, hsel⟩
  · obtain ⟨e, he, _, t, _, m, hm, rfl⟩ := mem_projSpecs.1 hs
    exact ⟨ha, he, (mem_projMods.1 hm).imp (·.1) id, ht, hsel⟩

/-- In a universe without fleet-boost effects every spec's modifier is one of its effect's. -/
theorem specsOn_mem_mods (hb : ∀ e ∈ u.effects, e.isBuff = false) {x : Item} {tx : ItemType} {attr : Int}
    {s : Spec} (h : s ∈ specsOn u cfg d x tx attr) : s.m ∈ s.e.mods := by
  obtain ⟨_, he, hm, _, _⟩ := specsOn_mem h
  rcases hm with hm | ⟨hbf, _, _⟩
  · exact hm
  · rw [hb _ (running_mem he).1] at hbf; cases hbf

theorem resistRead_some {e : Effect} {x c : Item} {r : Int} (h : resistRead cfg e x = some (c, r)) :
    e.resistAttr = some r ∧ r ≠ 0 ∧ carrierOf cfg x = some c := by
  unfold resistRead at h
  split at h
  · cases h
  · rename_i r' hr
    split at h
    · cases h
    · rename_i h0
      obtain ⟨c', hc, heq⟩ := Option.map_eq_some_iff.1 h
      cases heq
      exact ⟨hr, by simpa using h0, hc⟩

/-! ## A1. What `deps` lists -/

/-- The dependencies of `(x, am)`: for every spec acting on it the source attribute on the carrier of the
spec and the resistance attribute on the resisting item; and the cap attribute on `x` itself. -/
theorem mem_deps_iff {n n' : Node} {x : Item} {am : AttrMeta} {tx : ItemType} (hx : item? cfg n.1 = some x)
    (ha : attrMeta? u n.2 = some am) (hs : (x.kind == .skill && am.id == 280) = false)
    (ht : typeOf? u d x = some tx) :
    n' ∈ deps u cfg d n ↔
      (∃ s ∈ specsOn u cfg d x tx am.id,
        n' = (s.a.id, s.m.srcAttr) ∨ ∃ c r, resistRead cfg s.e x = some (c, r) ∧ n' = (c.id, r)) ∨
      (∃ mx, am.maxAttr = some mx ∧ n' = (x.id, mx)) := by
  unfold deps
  rw [hx, ha]
  simp only [hs, ht, Bool.false_eq_true, if_false, List.mem_append, List.mem_flatMap, List.mem_cons]
  refine or_congr (exists_congr fun s => and_congr_right fun _ => or_congr Iff.rfl ?_) ?_
  · cases hr : resistRead cfg s.e x with
    | none => simp
    | some p =>
      obtain ⟨c, r⟩ := p
      simp only [List.mem_cons, List.not_mem_nil, or_false, Option.some.injEq, Prod.mk.injEq]
      exact ⟨fun h => ⟨c, r, ⟨rfl, rfl⟩, h⟩, fun ⟨_, _, ⟨hc, hr⟩, h⟩ => hc ▸ hr ▸ h⟩
  · cases am.maxAttr with
    | none => simp
    | some mx => simp

/-- A node without configured item, without attribute metadata, a skill's level, or a node of an item that
is not loaded reads nothing. -/
theorem deps_eq_nil {n : Node} (h : item? cfg n.1 = none ∨ attrMeta? u n.2 = none ∨
    ∃ x, item? cfg n.1 = some x ∧ ((x.kind = .skill ∧ n.2 = 280) ∨ typeOf? u d x = none)) :
    deps u cfg d n = [] := by
  unfold deps
  rcases h with h | h | ⟨x, hx, h⟩
  · rw [h]
  · rw [h]; cases item? cfg n.1 <;> rfl
  · rw [hx]
    cases ha : attrMeta? u n.2 with
    | none => rfl
    | some am =>
      have hid : am.id = n.2 := by simpa using List.find?_some ha
      rcases h with ⟨hk, h280⟩ | h
      · simp [hk, hid, h280]
      · simp only [h]; split <;> rfl

/-! ## A2. Evaluation is local -/

theorem foldlM_congr_mem {ε α β : Type} {f g : β → α → Except ε β} (l : List α)
    (h : ∀ acc, ∀ a ∈ l, f acc a = g acc a) (init : β) : l.foldlM f init = l.foldlM g init := by
  induction l generalizing init with
  | nil => rfl
  | cons a l ih =>
    rw [List.foldlM_cons, List.foldlM_cons, h init a List.mem_cons_self]
    congr 1; funext b
    exact ih (fun acc a' ha' => h acc a' (List.mem_cons_of_mem _ ha')) b

theorem resistD_congr {rd rd' : Reader} {e : Effect} {x : Item}
    (h : ∀ c r, resistRead cfg e x = some (c, r) → rd c r = rd' c r) :
    resistD cfg rd e x = resistD cfg rd' e x := by
  unfold resistD
  cases hr : resistRead cfg e x with
  | none => rfl
  | some p => obtain ⟨c, r⟩ := p; simp only [h c r hr]

theorem gatherD_congr {immune : List Int} {rd rd' : Reader} {x : Item} {tx : ItemType} {attr : Int}
    (h : ∀ s ∈ specsOn u cfg d x tx attr, rd s.a s.m.srcAttr = rd' s.a s.m.srcAttr ∧
      ∀ c r, resistRead cfg s.e x = some (c, r) → rd c r = rd' c r) :
    gatherD u cfg d immune rd x tx attr = gatherD u cfg d immune rd' x tx attr := by
  unfold gatherD
  refine foldlM_congr_mem _ (fun acc s hs => ?_) _
  rw [(h s hs).1, resistD_congr (h s hs).2]

/-- `valueOfD` reads the reader at the source of every spec acting on `(x, am)`, at the resistance
attribute of the resisting item, and at the cap attribute of `x` — nowhere else. -/
theorem valueOfD_congr {immune limited : List Int} {pen : Nat → Rat} {rd rd' : Reader} {x : Item}
    {am : AttrMeta}
    (h : (x.kind == .skill && am.id == 280) = false → ∀ tx, typeOf? u d x = some tx →
      (∀ s ∈ specsOn u cfg d x tx am.id, rd s.a s.m.srcAttr = rd' s.a s.m.srcAttr ∧
        ∀ c r, resistRead cfg s.e x = some (c, r) → rd c r = rd' c r) ∧
      ∀ mx, am.maxAttr = some mx → rd x mx = rd' x mx) :
    valueOfD u cfg d immune limited pen rd x am = valueOfD u cfg d immune limited pen rd' x am := by
  unfold valueOfD
  cases hs : (x.kind == .skill && am.id == 280) with
  | true => rfl
  | false =>
    cases ht : typeOf? u d x with
    | none => rfl
    | some tx =>
      obtain ⟨hsp, hmx⟩ := h hs tx ht
      simp only [Bool.false_eq_true, if_false, gatherD_congr hsp]
      cases hm : am.maxAttr with
      | none => rfl
      | some mx => simp only [hmx mx hm]

/-- `readerOf` looks at the valuation only at `(y.id, a)`, and only when `a` has metadata. -/
theorem readerOf_congr {f g : Node → Option Rat} {y : Item} {a : Int}
    (h : (attrMeta? u a).isSome = true → f (y.id, a) = g (y.id, a)) :
    readerOf u f y a = readerOf u g y a := by
  unfold readerOf
  split
  · rfl
  · split
    · rfl
    · rename_i hm
      rw [h (by simpa [Option.isSome_iff_ne_none] using hm)]

/-- `readerOf` sees an item only through its id, kind and level. -/
theorem readerOf_item (f : Node → Option Rat) {y y' : Item} (a : Int) (hi : y.id = y'.id)
    (hk : y.kind = y'.kind) (hl : y.level = y'.level) : readerOf u f y a = readerOf u f y' a := by
  unfold readerOf; rw [hi, hk, hl]

/-- `readerOf` never answers with an error. -/
theorem readerOf_ok_or_absent (f : Node → Option Rat) (y : Item) (a : Int) :
    readerOf u f y a = .absent ∨ ∃ v, readerOf u f y a = .ok v := by
  unfold readerOf
  split
  · cases y.level <;> simp
  · split
    · simp
    · cases f (y.id, a) <;> simp

theorem mem_depsM {n m : Node} : m ∈ depsM u cfg d n ↔ m ∈ deps u cfg d n ∧ (attrMeta? u m.2).isSome = true := by
  simp [depsM]

/-- Nodes whose value the reader takes from the valuation: the attribute has metadata and the node is not
a skill's level (which the item itself answers; the real code never stores it in the attribute cache). -/
def valued (u : Universe) (cfg : Config) (m : Node) : Bool :=
  (attrMeta? u m.2).isSome &&
    !(match item? cfg m.1 with | some y => y.kind == .skill && m.2 == 280 | none => false)

/-- Dependencies without the nodes the reader answers by itself (no metadata, skill levels). -/
def depsV (u : Universe) (cfg : Config) (d : Dyn) (n : Node) : List Node := (deps u cfg d n).filter (valued u cfg)

theorem mem_depsV {n m : Node} : m ∈ depsV u cfg d n ↔ m ∈ deps u cfg d n ∧ valued u cfg m = true := by
  simp [depsV]

/-- With unique ids `readerOf` consults the valuation at `(y.id, a)` only if that node is `valued`. -/
theorem readerOf_congr_valued (hc : UniqueIds cfg) {f g : Node → Option Rat} {y : Item} (hy : y ∈ cfg.items)
    {a : Int} (h : valued u cfg (y.id, a) = true → f (y.id, a) = g (y.id, a)) :
    readerOf u f y a = readerOf u g y a := by
  by_cases hov : (y.kind == .skill && a == 280) = true
  · unfold readerOf; rw [if_pos hov, if_pos hov]
  · refine readerOf_congr fun hmeta => h ?_
    simp only [valued, item?_of_mem hc hy, hmeta, hov, Bool.not_false, Bool.and_self]

/-- Locality of `evalD` in any sub-list of `deps` that keeps every node at which the reader of a configured
item consults the valuation. -/
theorem evalD_local_keep (keep : Node → Bool)
    (hk : ∀ y ∈ cfg.items, ∀ (a : Int) (f g : Node → Option Rat),
      (keep (y.id, a) = true → f (y.id, a) = g (y.id, a)) → readerOf u f y a = readerOf u g y a)
    (immune limited : List Int) (pen : Nat → Rat) (n : Node) (f g : Node → Option Rat)
    (h : ∀ m, m ∈ (deps u cfg d n).filter keep → f m = g m) :
    evalD u cfg d immune limited pen n f = evalD u cfg d immune limited pen n g := by
  unfold evalD
  cases hx : item? cfg n.1 with
  | none => rfl
  | some x =>
    cases ha : attrMeta? u n.2 with
    | none => rfl
    | some am =>
      dsimp only
      congr 1
      refine valueOfD_congr fun hs tx ht => ?_
      have hin : ∀ y ∈ cfg.items, ∀ a, (y.id, a) ∈ deps u cfg d n →
          readerOf u f y a = readerOf u g y a := fun y hy a hm =>
        hk y hy a f g fun hkeep => h _ (List.mem_filter.2 ⟨hm, hkeep⟩)
      have hxm : x ∈ cfg.items := item?_mem hx
      refine ⟨fun s hsp => ⟨hin s.a (specsOn_mem hsp).1 _ ?_, fun c r hr => hin c ?_ r ?_⟩,
        fun mx hmx => hin x hxm mx ?_⟩
      · exact (mem_deps_iff hx ha hs ht).2 (Or.inl ⟨s, hsp, Or.inl rfl⟩)
      · exact (carrierOf_mem (cfg := cfg) (x := x) (resistRead_some hr).2.2).elim (fun e => e ▸ hxm) id
      · exact (mem_deps_iff hx ha hs ht).2 (Or.inl ⟨s, hsp, Or.inr ⟨c, r, hr, rfl⟩⟩)
      · exact (mem_deps_iff hx ha hs ht).2 (Or.inr ⟨mx, hmx, rfl⟩)

/-- The `eval` of the graph is local in `depsM` (hence in `deps`). -/
theorem evalD_localM (immune limited : List Int) (pen : Nat → Rat) (n : Node) (f g : Node → Option Rat)
    (h : ∀ m, m ∈ depsM u cfg d n → f m = g m) :
    evalD u cfg d immune limited pen n f = evalD u cfg d immune limited pen n g :=
  evalD_local_keep _ (fun _ _ _ _ _ hfg => readerOf_congr hfg) immune limited pen n f g h

/-- With unique ids it is even local in `depsV`. -/
theorem evalD_localV (hc : UniqueIds cfg) (immune limited : List Int) (pen : Nat → Rat) (n : Node)
    (f g : Node → Option Rat) (h : ∀ m, m ∈ depsV u cfg d n → f m = g m) :
    evalD u cfg d immune limited pen n f = evalD u cfg d immune limited pen n g :=
  evalD_local_keep _ (fun _ hy _ _ _ hfg => readerOf_congr_valued hc hy hfg) immune limited pen n f g h

theorem evalD_local (immune limited : List Int) (pen : Nat → Rat) (n : Node) (f g : Node → Option Rat)
    (h : ∀ m, m ∈ deps u cfg d n → f m = g m) :
    evalD u cfg d immune limited pen n f = evalD u cfg d immune limited pen n g :=
  evalD_localM immune limited pen n f g fun m hm => h m (mem_depsM.1 hm).1

/-! ## A3. The rank decreases along dependencies -/

/-- Every dependency of a node is at an attribute `readable` for the node's attribute. -/
theorem deps_readable {n m : Node} (hm : m ∈ deps u cfg d n) :
    ∃ am, attrMeta? u n.2 = some am ∧ m.2 ∈ readable u am := by
  cases hx : item? cfg n.1 with
  | none => rw [deps_eq_nil (Or.inl hx)] at hm; cases hm
  | some x =>
    cases ha : attrMeta? u n.2 with
    | none => rw [deps_eq_nil (Or.inr (Or.inl ha))] at hm; cases hm
    | some am =>
      refine ⟨am, rfl, ?_⟩
      have hid : am.id = n.2 := by simpa using List.find?_some ha
      cases hs : (x.kind == .skill && am.id == 280) with
      | true =>
        simp only [Bool.and_eq_true, beq_iff_eq] at hs
        rw [deps_eq_nil (Or.inr (Or.inr ⟨x, hx, Or.inl ⟨hs.1, hid ▸ hs.2⟩⟩))] at hm; cases hm
      | false =>
        cases ht : typeOf? u d x with
        | none => rw [deps_eq_nil (Or.inr (Or.inr ⟨x, hx, Or.inr ht⟩))] at hm; cases hm
        | some tx =>
          rcases (mem_deps_iff hx ha hs ht).1 hm with ⟨s, hsp, hsrc | ⟨c, r, hr, hres⟩⟩ | ⟨mx, hmx, rfl⟩
          · obtain ⟨_, he, hmods, htgt, _⟩ := specsOn_mem hsp
            subst hsrc
            rcases hmods with hmods | ⟨_, _, hok⟩
            · exact List.mem_append_right _ (reads_src (running_mem he).1 hmods htgt)
            · obtain ⟨_, hsrc, hany⟩ := bspecOK_iff.1 hok
              rw [htgt] at hany
              exact List.mem_append_right _ (reads_buff hany hsrc)
          · obtain ⟨_, he, hmods, htgt, _⟩ := specsOn_mem hsp
            obtain ⟨hra, h0, _⟩ := resistRead_some hr
            subst hres
            rcases hmods with hmods | ⟨hbf, _, hok⟩
            · exact List.mem_append_right _ (reads_resist_mod (running_mem he).1 hmods htgt hra h0)
            · obtain ⟨_, _, hany⟩ := bspecOK_iff.1 hok
              rw [htgt] at hany
              exact List.mem_append_right _ (reads_resist (running_mem he).1 hra h0 (by rw [hbf, hany]; simp))
          · exact List.mem_append_left _ (by simp [hmx])

/-- In a rank-well-formed universe an attribute with metadata that is readable for `am` is listed
strictly before the first entry with `am`'s id. -/
theorem idxOf_lt_of_readable (hwf : rankWF u = true) {a b : Int} {am : AttrMeta}
    (ha : attrMeta? u a = some am) (hb : b ∈ readable u am) (hbm : (attrMeta? u b).isSome = true) :
    (u.attrs.map (·.id)).idxOf b < (u.attrs.map (·.id)).idxOf a := by
  obtain ⟨hid, pre, post, hsplit, hpre⟩ := List.find?_eq_some_iff_append.1 ha
  have hid : am.id = a := by simpa using hid
  have hbpre : b ∈ pre.map (·.id) := (rankWF_iff u).1 hwf pre am post hsplit b hb hbm
  have hapre : a ∉ pre.map (·.id) := by
    intro hmem
    obtain ⟨c, hc, hca⟩ := List.mem_map.1 hmem
    simpa [hca] using hpre c hc
  rw [hsplit, List.map_append, List.map_cons, List.idxOf_append, List.idxOf_append, if_pos hbpre,
    if_neg hapre, hid, List.idxOf_cons_self]
  exact Nat.lt_of_lt_of_le (List.idxOf_lt_length_of_mem hbpre) (Nat.le_add_left _ _)

theorem deps_rank_lt (hwf : rankWF u = true) {n m : Node} (hm : m ∈ deps u cfg d n)
    (hmeta : (attrMeta? u m.2).isSome = true) : rankOf u m < rankOf u n := by
  obtain ⟨am, ha, hr⟩ := deps_readable hm
  exact idxOf_lt_of_readable hwf ha hr hmeta

theorem depsM_rank_lt (hwf : rankWF u = true) {n m : Node} (hm : m ∈ depsM u cfg d n) :
    rankOf u m < rankOf u n :=
  deps_rank_lt hwf (mem_depsM.1 hm).1 (mem_depsM.1 hm).2

theorem depsV_rank_lt (hwf : rankWF u = true) {n m : Node} (hm : m ∈ depsV u cfg d n) :
    rankOf u m < rankOf u n := by
  obtain ⟨h1, h2⟩ := mem_depsV.1 hm
  simp only [valued, Bool.and_eq_true] at h2
  exact deps_rank_lt hwf h1 h2.1

/-! ## A4. The dependency graph of a message-level state -/

/-- The message-level state `c = (configuration, dynamic state)` of a rank-well-formed universe as a
dependency graph with local evaluation. -/
def graphOf (u : Universe) (immune limited : List Int) (pen : Nat → Rat) (hwf : rankWF u = true)
    (c : Config × Dyn) : Eos.DepCache.Graph Node Rat where
  deps := depsM u c.1 c.2
  eval := evalD u c.1 c.2 immune limited pen
  rank := rankOf u
  acyclic := fun _ _ hm => depsM_rank_lt hwf hm
  eval_local := evalD_localM immune limited pen

@[simp] theorem graphOf_deps (immune limited : List Int) (pen : Nat → Rat) (hwf : rankWF u = true)
    (c : Config × Dyn) : (graphOf u immune limited pen hwf c).deps = depsM u c.1 c.2 := rfl

@[simp] theorem graphOf_eval (immune limited : List Int) (pen : Nat → Rat) (hwf : rankWF u = true)
    (c : Config × Dyn) : (graphOf u immune limited pen hwf c).eval = evalD u c.1 c.2 immune limited pen := rfl

@[simp] theorem graphOf_rank (immune limited : List Int) (pen : Nat → Rat) (hwf : rankWF u = true)
    (c : Config × Dyn) : (graphOf u immune limited pen hwf c).rank = rankOf u := rfl

/-- The same state with the override nodes (skill levels) left out of the dependency lists, so that a
dependency-closed cache need not hold them; needs items to be identified by their ids. -/
def graphOfV (u : Universe) (immune limited : List Int) (pen : Nat → Rat) (hwf : rankWF u = true)
    (c : Config × Dyn) (hc : UniqueIds c.1) : Eos.DepCache.Graph Node Rat where
  deps := depsV u c.1 c.2
  eval := evalD u c.1 c.2 immune limited pen
  rank := rankOf u
  acyclic := fun _ _ hm => depsV_rank_lt hwf hm
  eval_local := evalD_localV hc immune limited pen

@[simp] theorem graphOfV_deps (immune limited : List Int) (pen : Nat → Rat) (hwf : rankWF u = true)
    (c : Config × Dyn) (hc : UniqueIds c.1) :
    (graphOfV u immune limited pen hwf c hc).deps = depsV u c.1 c.2 := rfl

@[simp] theorem graphOfV_eval (immune limited : List Int) (pen : Nat → Rat) (hwf : rankWF u = true)
    (c : Config × Dyn) (hc : UniqueIds c.1) :
    (graphOfV u immune limited pen hwf c hc).eval = evalD u c.1 c.2 immune limited pen := rfl

@[simp] theorem graphOfV_rank (immune limited : List Int) (pen : Nat → Rat) (hwf : rankWF u = true)
    (c : Config × Dyn) (hc : UniqueIds c.1) : (graphOfV u immune limited pen hwf c hc).rank = rankOf u := rfl

/-- Both graphs compute the same values: the left-out nodes never influence `eval`. -/
theorem spec_graphOfV (immune limited : List Int) (pen : Nat → Rat) (hwf : rankWF u = true)
    (c : Config × Dyn) (hc : UniqueIds c.1) (n : Node) :
    Eos.DepCache.spec (graphOfV u immune limited pen hwf c hc) n =
      Eos.DepCache.spec (graphOf u immune limited pen hwf c) n := by
  suffices h : ∀ k n, rankOf u n < k →
      Eos.DepCache.spec (graphOfV u immune limited pen hwf c hc) n =
        Eos.DepCache.spec (graphOf u immune limited pen hwf c) n from h _ n (Nat.lt_succ_self _)
  intro k
  induction k with
  | zero => intro n h; exact absurd h (Nat.not_lt_zero _)
  | succ k ih =>
    intro n hn
    rw [Eos.DepCache.spec_unfold, Eos.DepCache.spec_unfold (graphOf u immune limited pen hwf c)]
    refine evalD_localV hc immune limited pen n _ _ fun m hm => ih m ?_
    have := depsV_rank_lt (u := u) hwf hm
    omega

/-! ## Non-vacuity: the two-item world of `Lemmas/CalcWorld.lean` in its settled state -/

example : rankWF exUniverse = true := by decide
example : deps exUniverse exConfig (derivedDyn exUniverse exConfig) (1, 37) = [(2, 20)] := by decide +kernel
example : evalD exUniverse exConfig (derivedDyn exUniverse exConfig) specImmune specLimited (fun _ => 1) (1, 37)
    (fun n => if n = (2, 20) then some (3/2) else none) = some 150 := by decide +kernel
example : Eos.DepCache.spec (graphOf exUniverse specImmune specLimited (fun _ => 1) (by decide)
    (exConfig, derivedDyn exUniverse exConfig)) (1, 37) = some 150 := by decide +kernel

end Eos.Micro
