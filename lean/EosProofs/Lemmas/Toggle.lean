import EosModel.Toggle
/-! Generic lemma about toggle registers (core Lean only, no Mathlib needed). -/
namespace Eos.Toggle
variable {D : Type}

theorem has_iff (reg : Reg D) (i : Nat) : reg.has i = true ↔ ∃ d, (i, d) ∈ reg := by
  unfold Reg.has
  rw [List.any_eq_true]
  constructor
  · rintro ⟨⟨j, d⟩, hm, hj⟩
    have : j = i := by simpa using hj
    exact ⟨d, this ▸ hm⟩
  · rintro ⟨d, hm⟩
    exact ⟨(i, d), hm, by simp⟩

theorem nodup_of_map {α β} (f : α → β) : ∀ (l : List α), (l.map f).Nodup → l.Nodup
  | [], _ => List.nodup_nil
  | a :: l, h => by
    rw [List.map_cons, List.nodup_cons] at h
    rw [List.nodup_cons]
    exact ⟨fun hm => h.1 (List.mem_map_of_mem hm), nodup_of_map f l h.2⟩

theorem inv_nil : Inv (fun _ => (none : Option D)) [] := by
  constructor
  · intro i d; simp
  · simp

/-- One step: a well-formed event keeps "register = truth". -/
theorem step_inv {cur : Nat → Option D} {reg : Reg D} (ev : Ev D)
    (h : Inv cur reg) (hw : ev.wf cur) : Inv (applyCur cur ev) (step reg ev) := by
  obtain ⟨hm, hn⟩ := h
  cases ev with
  | skip => exact ⟨hm, hn⟩
  | off i =>
    constructor
    · intro j d
      simp only [step, applyCur, upd, List.mem_filter]
      by_cases hj : j = i
      · subst hj; simp
      · simp [hj, hm]
    · simp only [step]
      exact (List.Sublist.map _ List.filter_sublist).nodup hn
  | on i od =>
    have hci : cur i = none := hw
    have hnot : reg.has i = false := by
      cases hh : reg.has i with
      | false => rfl
      | true =>
        obtain ⟨d, hd⟩ := (has_iff reg i).1 hh
        have := (hm i d).1 hd
        rw [hci] at this; cases this
    cases od with
    | none =>
      constructor
      · intro j d
        simp only [step, applyCur, upd]
        by_cases hj : j = i
        · subst hj; simp [hm, hci]
        · simp [hj, hm]
      · exact hn
    | some d0 =>
      constructor
      · intro j d
        simp only [step, applyCur, upd, hnot]
        by_cases hj : j = i
        · subst hj
          simp only [Bool.false_eq_true, if_false, List.mem_cons, Prod.mk.injEq, true_and, if_true,
            Option.some.injEq]
          constructor
          · rintro (h | h)
            · exact h.symm
            · have := (hm j d).1 h; rw [hci] at this; cases this
          · intro h; exact Or.inl h.symm
        · simp [hj, hm]
      · simp only [step, hnot, Bool.false_eq_true, if_false, List.map_cons, List.nodup_cons]
        refine ⟨?_, hn⟩
        intro hmem
        obtain ⟨⟨j, d⟩, hjm, hji⟩ := List.mem_map.1 hmem
        simp only at hji
        subst hji
        have := (hm j d).1 hjm
        rw [hci] at this; cases this

/-- **toggle_register**: after any well-formed event sequence the register holds exactly the
items that are on and qualify, each exactly once. -/
theorem toggle_register {cur : Nat → Option D} {reg : Reg D} (evs : List (Ev D))
    (h : Inv cur reg) (hw : WF cur evs) : Inv (runCur cur evs) (run reg evs) := by
  induction evs generalizing cur reg with
  | nil => exact h
  | cons e es ih => exact ih (step_inv e h hw.1) hw.2

/-- Two registers that hold the same truth are permutations of each other. -/
theorem perm_of_inv [DecidableEq D] {cur : Nat → Option D} {a b : Reg D} (ha : Inv cur a) (hb : Inv cur b) :
    a.Perm b := by
  refine (List.perm_ext_iff_of_nodup (nodup_of_map _ _ ha.2) (nodup_of_map _ _ hb.2)).2 ?_
  rintro ⟨i, d⟩
  rw [ha.1, hb.1]

end Eos.Toggle
