import EosModel.EffectStatusSpec
/-! C05: the packed keys of the specification's product are strictly increasing (kernel evaluation;
depends on the hand-written model only). -/
namespace Eos.C05
open Eos.EffectStatus

theorem keys_chain : chainParts 0 (keyParts.map (·.map Key.pack)) = true := by decide +kernel

end Eos.C05
