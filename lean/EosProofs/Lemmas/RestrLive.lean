import EosProofs.Lemmas.RestrSpec
/-! Helper lemmas for C03: every key a restriction reports is the id of an item record or of an item
placed in a container - never a rack hole. -/
namespace Eos.Restr
open Eos.Toggle

theorem withCharge_key {cfg : Snapshot} {i : Nat} {f : Item → Item → Option (Nat × ErrData)} {p : Nat × ErrData}
    (h : withCharge cfg i f = some p)
    (hf : ∀ it ch q, f it ch = some q → q.1 = ch.id ∨ q.1 = i) : p.1 = i ∨ p.1 ∈ cfg.ids := by
  unfold withCharge at h
  split at h
  · split at h
    · split at h
      · rename_i ch hch
        rcases hf _ _ _ h with h1 | h1
        · right; rw [h1]; exact mem_ids_of_mem (item?_mem hch).1
        · left; exact h1
      · cases h; left; rfl
    · cases h
  · cases h; left; rfl

/-- A tainted key is the registered item itself or (charge restrictions) an item record's id. -/
theorem check_key (t : RType) (cfg : Snapshot) (reg : Reg Payload) (e : Nat × Payload) {q : Nat × ErrData}
    (h : check t cfg reg e = some q) : q.1 = e.1 ∨ q.1 ∈ cfg.ids := by
  have wc : ∀ {f : Item → Item → Option (Nat × ErrData)}, withCharge cfg e.1 f = some q →
      (∀ it ch q', f it ch = some q' → q'.1 = ch.id ∨ q'.1 = e.1) → q.1 = e.1 ∨ q.1 ∈ cfg.ids :=
    fun hq hf => withCharge_key hq hf
  cases t <;> simp only [check] at h
  all_goals first
    | exact Or.inl (withTd_key h)
    | (cases h; done)
    | skip
  -- rig size
  · split at h
    · exact Or.inl (withTd_key h)
    · cases h
  -- subsystem / implant / booster index, ship type group, max group: the key is `e.1` on every branch
  all_goals first
    | (repeat' split at h
       all_goals first
         | (cases h; done)
         | (left; cases h; rfl))
    | skip
  -- charge group
  · split at h
    · refine wc h ?_
      intro it ch q' hq'
      repeat' split at hq'
      all_goals first
        | (cases hq'; done)
        | (left; cases hq'; rfl)
    · left; cases h; rfl
  -- charge size
  · refine wc h ?_
    intro it ch q' hq'
    repeat' split at hq'
    all_goals first
      | (cases hq'; done)
      | (left; cases hq'; rfl)
      | (right; cases hq'; rfl)
  -- charge volume
  · refine wc h ?_
    intro it ch q' hq'
    repeat' split at hq'
    all_goals first
      | (cases hq'; done)
      | (left; cases hq'; rfl)

theorem ruleReg_key (t : RType) (reg : Reg Payload) (cfg : Snapshot) {p : Nat × ErrData}
    (h : p ∈ ruleReg t reg cfg) : p.1 ∈ reg.map (·.1) ∨ p.1 ∈ cfg.ids := by
  unfold ruleReg at h
  split at h
  · cases h
  · obtain ⟨e, he, hq⟩ := List.mem_filterMap.1 h
    rcases check_key t cfg reg e hq with h1 | h1
    · left; rw [h1]; exact List.mem_map_of_mem he
    · right; exact h1

/-! ### the 19 register-free restrictions -/
theorem placed_mem_of {cfg : Snapshot} {i : Nat}
    (h : i ∈ cfg.rigs ∨ i ∈ cfg.subsystems ∨ i ∈ cfg.fighters ∨ i ∈ (cfg.high ++ cfg.mid ++ cfg.low).filterMap id) :
    i ∈ cfg.placed := by
  unfold Snapshot.placed
  simp only [List.mem_append]
  rcases h with h | h | h | h
  · exact Or.inl (Or.inl (Or.inr h))
  · exact Or.inl (Or.inl (Or.inl (Or.inl (Or.inr h))))
  · exact Or.inr h
  · exact Or.inl (Or.inl (Or.inl (Or.inr (by simpa [List.mem_append] using h))))

theorem ruleResource_key {cfg : Snapshot} {users : List Item} {u o : Nat} {r : Bool} {p : Nat × ErrData}
    (hu : ∀ it ∈ users, it ∈ cfg.items) (h : p ∈ ruleResource cfg users u o r) : p.1 ∈ cfg.ids := by
  unfold ruleResource at h
  simp only at h
  split at h
  · obtain ⟨it, hit, rfl⟩ := List.mem_map.1 h
    exact mem_ids_of_mem (hu it (List.mem_filter.1 hit).1)
  · repeat' split at h
    all_goals first
      | (cases h; done)
      | (obtain ⟨x, hx, hp⟩ := List.mem_filterMap.1 h
         obtain ⟨it, hit, hm⟩ := List.mem_filterMap.1 hx
         obtain ⟨v, _, rfl⟩ := Option.map_eq_some_iff.1 hm
         split at hp
         · cases hp
         · cases hp; exact mem_ids_of_mem (hu it hit))

theorem ruleSlotUsers_key {users : List Nat} {total : Int} {p : Nat × ErrData}
    (h : p ∈ ruleSlotUsers users total) : p.1 ∈ users := by
  unfold ruleSlotUsers at h
  simp only at h
  split at h
  · obtain ⟨i, hi, rfl⟩ := List.mem_map.1 h; exact hi
  · cases h

theorem ruleOrdered_key {rack : List (Option Nat)} {total : Int} {p : Nat × ErrData}
    (h : p ∈ ruleOrdered rack total) : p.1 ∈ rack.filterMap id := by
  unfold ruleOrdered at h
  simp only at h
  split at h
  · obtain ⟨i, hi, rfl⟩ := List.mem_map.1 h
    obtain ⟨o, ho, hoi⟩ := List.mem_filterMap.1 hi
    exact List.mem_filterMap.2 ⟨o, List.mem_of_mem_drop ho, hoi⟩
  · cases h

theorem filter_ids {cfg : Snapshot} {f : Item → Bool} {i : Nat} (h : i ∈ (cfg.items.filter f).map (·.id)) :
    i ∈ cfg.ids := by
  obtain ⟨it, hit, rfl⟩ := List.mem_map.1 h
  exact mem_ids_of_mem (List.mem_filter.1 hit).1

theorem ruleStateless_key (t : RType) (cfg : Snapshot) {p : Nat × ErrData} (h : p ∈ ruleStateless t cfg) :
    p.1 ∈ cfg.ids ∨ p.1 ∈ cfg.placed := by
  have fi : ∀ f : Item → Bool, ∀ it ∈ cfg.items.filter f, it ∈ cfg.items := fun f it hit => (List.mem_filter.1 hit).1
  have rack : ∀ {r : List (Option Nat)}, (r = cfg.high ∨ r = cfg.mid ∨ r = cfg.low) → p.1 ∈ r.filterMap id →
      p.1 ∈ cfg.placed := by
    intro r hr hp
    refine placed_mem_of (Or.inr (Or.inr (Or.inr ?_)))
    simp only [List.filterMap_append, List.mem_append]
    rcases hr with rfl | rfl | rfl
    · exact Or.inl (Or.inl hp)
    · exact Or.inl (Or.inr hp)
    · exact Or.inr hp
  cases t <;> simp only [ruleStateless] at h
  all_goals first
    | (cases h; done)
    | exact Or.inl (ruleResource_key (fi _) h)
    | exact Or.inl (filter_ids (ruleSlotUsers_key h))
    | exact Or.inr (rack (Or.inl rfl) (ruleOrdered_key h))
    | exact Or.inr (rack (Or.inr (Or.inl rfl)) (ruleOrdered_key h))
    | exact Or.inr (rack (Or.inr (Or.inr rfl)) (ruleOrdered_key h))
    | exact Or.inr (placed_mem_of (Or.inl (ruleSlotUsers_key h)))
    | exact Or.inr (placed_mem_of (Or.inr (Or.inl (ruleSlotUsers_key h))))
    | exact Or.inr (placed_mem_of (Or.inr (Or.inr (Or.inl (ruleSlotUsers_key h)))))
    | skip
  -- usersEffect-based resources
  all_goals first
    | exact Or.inl (ruleResource_key (by intro it hit; exact (List.mem_filter.1 hit).1) h)
    | skip
  -- fighter squads by kind
  all_goals first
    | exact Or.inl (filter_ids (ruleSlotUsers_key h))
    | skip
  -- item class
  · unfold ruleItemClass at h
    obtain ⟨it, hit, hp⟩ := List.mem_filterMap.1 h
    left
    cases htd : it.td with
    | none => simp [htd] at hp
    | some td =>
      simp only [htd] at hp
      simp at hp
      rw [← hp.2]; exact mem_ids_of_mem hit
  -- loaded item
  · unfold ruleLoadedItem at h
    obtain ⟨it, hit, hp⟩ := List.mem_filterMap.1 h
    left
    split at hp
    · cases hp; exact mem_ids_of_mem hit
    · cases hp

theorem rule_key (t : RType) (cfg : Snapshot) {p : Nat × ErrData}
    (h : p ∈ rule t (derivedCfg (regSpec t) cfg) cfg) : p.1 ∈ cfg.ids ∨ p.1 ∈ cfg.placed := by
  unfold rule at h
  split at h
  · rcases ruleReg_key t _ cfg h with h1 | h1
    · obtain ⟨e, he, hep⟩ := List.mem_map.1 h1
      exact Or.inl (hep ▸ derivedCfg_key he)
    · exact Or.inl h1
  · exact ruleStateless_key t cfg h

theorem placed_sub_onFit {cfg : Snapshot} {i : Nat} (h : i ∈ cfg.placed) : i ∈ cfg.onFit := by
  unfold Snapshot.onFit; exact List.mem_append_left _ h

end Eos.Restr
