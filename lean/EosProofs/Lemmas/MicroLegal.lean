import EosProofs.Lemmas.MicroCascade
import EosProofs.Lemmas.Machine
/-! Every message-level step of `Micro.mstep` is a legal `.change` step of the abstract cache machine
(`Machine.Legal`), for any graph family `W` whose `deps` are a (configuration-dependent) filter of
`Micro.deps` and whose `eval` is `Micro.evalD`.

* coverage: what the calculation of a node reads is enumerated by `rdeps` (completeness of the four
  reverse-dependency enumerators of `_revise_regular_attr_dependents`);
* a node whose list of affector specs changes in a step is among the step's direct invalidation targets;
* legality of each step kind under the side conditions `StepOK`. -/
namespace Eos.Micro.L
open Eos.World Eos.DepCache Eos.Machine

/-! ## Well-formedness hypotheses -/

-- `Kind.isSolsys` (ship / drone / fighter) lives in `EosModel/WorldMicro.lean`: the executable `stepOKb` uses it.

def _root_.Eos.World.Kind.isModule : Kind → Bool
  | .moduleHigh | .moduleMid | .moduleLow => true
  | _ => false

def _root_.Eos.World.Kind.isCharge : Kind → Bool
  | .charge | .autocharge => true
  | _ => false

/-- A resisted effect (resistance attribute present and non-zero) has only projected modifiers
(`domain = 4`) — the property's own well-formedness clause.  The resistance attribute is read on the *carrier*
of the affected item, and `_revise_regular_attr_dependents` finds the readers of a changed resistance
attribute only through projectors: a resisted local modifier would be read without being enumerated. -/
def ResistWF (u : Universe) : Prop :=
  ∀ e ∈ u.effects, ∀ r, e.resistAttr = some r → r ≠ 0 → ∀ m ∈ e.mods, m.domain = 4

/-- A charge whose container is present sits in a module of its own fit (never in a drone / fighter), so
that its carrier is the ship of its fit. -/
def ChargeWF (cfg : Config) : Prop :=
  ∀ x ∈ cfg.items, x.kind.isCharge = true → ∀ p, x.parent.bind (item? cfg) = some p →
    p.kind ≠ .drone ∧ p.kind ≠ .fighter ∧ (p.kind.isModule = true → p.fit = x.fit)

/-- Recorded projection targets are solar-system items (ship, drone, fighter squad). -/
def TgtKinds (cfg : Config) (d : Dyn) : Prop := ∀ a e t, t ∈ targetsOf cfg d a e → t.kind.isSolsys = true

variable {u : Universe} {cfg : Config} {d : Dyn}

/-! ## Lookups -/

theorem item?_id {i : Nat} {x : Item} (h : item? cfg i = some x) : x.id = i := by
  have := List.find?_some h; simpa using this

theorem item?_of_mem (hU : UniqueIds cfg) {x : Item} (hx : x ∈ cfg.items) : item? cfg x.id = some x := by
  cases h : item? cfg x.id with
  | none =>
    have := List.find?_eq_none.1 h x hx
    simp at this
  | some y => rw [eq_of_nodup_map _ hU (item?_mem h) hx (item?_id h)]

theorem node_eq {n : Node} {x : Item} {am : AttrMeta} (hx : item? cfg n.1 = some x)
    (ham : attrMeta? u n.2 = some am) : n = (x.id, am.id) := by
  rw [item?_id hx, attrMeta?_id ham]

theorem mem_targetsOf {a : Item} {e : Effect} {t : Item} :
    t ∈ targetsOf cfg d a e ↔ ∃ j ∈ d.tgts a.id e.id, item? cfg j = some t := by
  unfold targetsOf; exact List.mem_filterMap

theorem mem_allSpecs {s : Spec} :
    s ∈ allSpecs u cfg d ↔ ∃ a ∈ cfg.items, s ∈ localSpecs u d a ++ projSpecs u cfg d a := by
  unfold allSpecs; exact List.mem_flatMap

theorem mem_specsOn {s : Spec} {x : Item} {tx : ItemType} {attr : Int} :
    s ∈ specsOn u cfg d x tx attr ↔ s ∈ allSpecs u cfg d ∧ s.m.tgtAttr = attr ∧ selects cfg s x tx = true := by
  unfold specsOn; simp [List.mem_filter]

theorem mem_affectees {s : Spec} {x : Item} :
    x ∈ affectees u cfg d s ↔ x ∈ cfg.items ∧ ∃ tx, typeOf? u d x = some tx ∧ selects cfg s x tx = true := by
  unfold affectees
  rw [List.mem_filter]
  constructor
  · rintro ⟨hx, h⟩
    split at h
    · rename_i tx htx; exact ⟨hx, tx, htx, h⟩
    · cases h
  · rintro ⟨hx, tx, htx, h⟩
    exact ⟨hx, by rw [htx]; exact h⟩

theorem carrierOf_eq (x : Item) : Micro.carrierOf cfg x = World.carrierOf cfg x := rfl

/-! ## Introduction rules for `rdeps` -/

theorem rdeps_cap {i : Nat} {b : Int} {y : Item} {am : AttrMeta} (hy : item? cfg i = some y)
    (ham : am ∈ u.attrs) (hmx : am.maxAttr = some b) : (y.id, am.id) ∈ rdeps u cfg d (i, b) := by
  unfold rdeps; simp only [hy]
  refine List.mem_append_left _ (List.mem_append_left _ (List.mem_map.2 ⟨am, List.mem_filter.2 ⟨ham, ?_⟩, rfl⟩))
  simp [hmx]

theorem rdeps_src {i : Nat} {b : Int} {y x' : Item} {s : Spec} (hy : item? cfg i = some y)
    (hs : s ∈ localSpecs u d y ++ projSpecs u cfg d y) (hsrc : s.m.srcAttr = b)
    (hx' : x' ∈ affectees u cfg d s) : (x'.id, s.m.tgtAttr) ∈ rdeps u cfg d (i, b) := by
  unfold rdeps; simp only [hy]
  refine List.mem_append_left _ (List.mem_append_right _ (List.mem_flatMap.2 ⟨s, List.mem_filter.2 ⟨hs, ?_⟩, ?_⟩))
  · simp [hsrc]
  · exact List.mem_map.2 ⟨x', hx', rfl⟩

theorem rdeps_res {i : Nat} {b : Int} {y a t x' : Item} {s : Spec} (hy : item? cfg i = some y)
    (ha : a ∈ cfg.items) (hs : s ∈ projSpecs u cfg d a) (hr : s.e.resistAttr = some b) (h0 : b ≠ 0)
    (ht : t ∈ targetsOf cfg d a s.e)
    (hid : t.id = y.id ∨ (y.kind.ownerModifiable = true ∧ shipOf cfg y.fit = some t.id))
    (hx' : x' ∈ affectees u cfg d s) : (x'.id, s.m.tgtAttr) ∈ rdeps u cfg d (i, b) := by
  unfold rdeps; simp only [hy]
  refine List.mem_append_right _ (List.mem_flatMap.2 ⟨a, ha, List.mem_flatMap.2 ⟨s, List.mem_filter.2 ⟨hs, ?_⟩, ?_⟩⟩)
  · simp only [Bool.and_eq_true, beq_iff_eq, bne_iff_ne, ne_eq, List.any_eq_true, Bool.or_eq_true]
    exact ⟨⟨hr, h0⟩, t, ht, hid⟩
  · exact List.mem_map.2 ⟨x', hx', rfl⟩

/-! ## What a node reads -/

/-- The shapes of a dependency of node `n`. -/
theorem deps_cases {n m : Node} (h : m ∈ deps u cfg d n) :
    ∃ x am tx, item? cfg n.1 = some x ∧ attrMeta? u n.2 = some am ∧ typeOf? u d x = some tx ∧
      ((∃ s ∈ specsOn u cfg d x tx am.id, m = (s.a.id, s.m.srcAttr) ∨
          ∃ c r, resistRead cfg s.e x = some (c, r) ∧ m = (c.id, r)) ∨
       (am.maxAttr = some m.2 ∧ m.1 = x.id)) := by
  unfold deps at h
  split at h
  · rename_i x am hx ham
    split at h
    · cases h
    · split at h
      · cases h
      · rename_i tx htx
        refine ⟨x, am, tx, hx, ham, htx, ?_⟩
        rcases List.mem_append.1 h with h | h
        · obtain ⟨s, hs, hm⟩ := List.mem_flatMap.1 h
          refine Or.inl ⟨s, hs, ?_⟩
          rcases List.mem_cons.1 hm with rfl | hm
          · exact Or.inl rfl
          · split at hm
            · rename_i c r hcr
              rw [List.mem_singleton.1 hm]
              exact Or.inr ⟨c, r, hcr, rfl⟩
            · cases hm
        · split at h
          · rename_i mx hmx
            rw [List.mem_singleton.1 h]
            exact Or.inr ⟨hmx, rfl⟩
          · cases h
  · cases h

theorem resistRead_cases {e : Effect} {x c : Item} {r : Int} (h : resistRead cfg e x = some (c, r)) :
    e.resistAttr = some r ∧ r ≠ 0 ∧ Micro.carrierOf cfg x = some c := by
  unfold resistRead at h
  split at h
  · cases h
  · rename_i r' hr'
    split at h
    · cases h
    · rename_i h0
      obtain ⟨c', hc', hEq⟩ := Option.map_eq_some_iff.1 h
      cases hEq
      exact ⟨hr', by simpa using h0, hc'⟩

/-- The carrier of an item selected by a projected modifier is the recorded target — or the item itself,
when it is an owner-modifiable in-space item (drone, fighter) of the targeted ship's fit. -/
theorem carrier_of_selected (hU : UniqueIds cfg) (hC : ChargeWF cfg) {a t x c : Item} {m : Modifier}
    {tx : ItemType} (hx : x ∈ cfg.items) (ht : t ∈ cfg.items) (htk : t.kind.isSolsys = true)
    (hsel : affectsProjected cfg a m t x tx = true)
    (hc : Micro.carrierOf cfg x = some c) :
    c.id = t.id ∨ (c = x ∧ x.kind.ownerModifiable = true ∧ shipOf cfg x.fit = some t.id) := by
  unfold affectsProjected at hsel
  split at hsel
  · -- the target itself
    have hid : x.id = t.id := by simpa using hsel
    have hxt : x = t := eq_of_nodup_map _ hU hx ht hid
    subst hxt
    left
    unfold Micro.carrierOf at hc
    cases hk : x.kind <;> rw [hk] at htk hc <;> simp [Kind.isSolsys] at htk <;> simp at hc <;> rw [← hc]
  · -- items aboard the targeted ship / owned by its fit
    simp only [Bool.and_eq_true, beq_iff_eq] at hsel
    obtain ⟨⟨⟨_, hship⟩, hfit⟩, hpass⟩ := hsel
    have hdom : x.kind.modDomain = some 3 ∨ x.kind.ownerModifiable = true := by
      unfold passesFilter at hpass
      split at hpass
      · exact Or.inl (by simpa using hpass)
      · split at hpass
        · simp only [Bool.and_eq_true, beq_iff_eq] at hpass; exact Or.inl hpass.1.1
        · split at hpass
          · simp only [Bool.and_eq_true, beq_iff_eq] at hpass; exact Or.inl hpass.1
          · split at hpass
            · simp only [Bool.and_eq_true] at hpass; exact Or.inr hpass.1
            · cases hpass
    have hcar : ∀ f, f = t.fit → (shipOf cfg f).bind (item? cfg) = some c → c.id = t.id := by
      intro f hf h
      rw [hf, hship] at h
      exact item?_id h
    have hown : shipOf cfg x.fit = some t.id := by rw [hfit]; exact hship
    unfold Micro.carrierOf at hc
    cases hk : x.kind <;> rw [hk] at hdom hc <;> simp [Kind.modDomain, Kind.ownerModifiable] at hdom
    all_goals first
      | exact Or.inl (hcar _ hfit hc)
      | exact Or.inr ⟨(Option.some.inj (show some x = some c from hc)).symm, by simp [Kind.ownerModifiable], hown⟩
      | (obtain ⟨p, hp, hcp⟩ := Option.bind_eq_some_iff.1 hc
         obtain ⟨hnd, hnf, hmod⟩ := hC x hx (by simp [hk, Kind.isCharge]) p hp
         cases hpk : p.kind <;> rw [hpk] at hcp hnd hnf hmod <;> simp at hcp hnd hnf
         all_goals exact Or.inl (hcar _ ((hmod (by simp [Kind.isModule])).trans hfit) hcp))

/-- Structure of a resistance read of node `(x, attr)`: the spec is a projected one, its recorded target is
the carrier whose attribute is read, or the ship of the (owner-modifiable) carrier's fit. -/
theorem resist_dep (hU : UniqueIds cfg) (hR : ResistWF u) (hT : TgtKinds cfg d) (hC : ChargeWF cfg)
    {x c : Item} {tx : ItemType} {attr r : Int} {s : Spec} (hx : x ∈ cfg.items)
    (hs : s ∈ specsOn u cfg d x tx attr) (hrr : resistRead cfg s.e x = some (c, r)) :
    ∃ a ∈ cfg.items, s ∈ projSpecs u cfg d a ∧ s.e.resistAttr = some r ∧ r ≠ 0 ∧
      ∃ t ∈ targetsOf cfg d a s.e, s.tg = some t ∧
        (t.id = c.id ∨ (c = x ∧ x.kind.ownerModifiable = true ∧ shipOf cfg x.fit = some t.id)) := by
  obtain ⟨hall, _, hsel⟩ := mem_specsOn.1 hs
  obtain ⟨a, ha, hsa⟩ := mem_allSpecs.1 hall
  obtain ⟨hr, h0, hc⟩ := resistRead_cases hrr
  rcases List.mem_append.1 hsa with hl | hp
  · obtain ⟨e, he, m, hm, hd, rfl⟩ := mem_localSpecs.1 hl
    exact absurd (hR e (typeEffects_mem (mem_running.1 he).1) r hr h0 m hm) hd
  · refine ⟨a, ha, hp, hr, h0, ?_⟩
    obtain ⟨e, _, _, t, ht, m, _, rfl⟩ := mem_projSpecs.1 hp
    refine ⟨t, ht, rfl, ?_⟩
    obtain ⟨j, _, hj⟩ := mem_targetsOf.1 ht
    have hsel' : affectsProjected cfg a m t x tx = true := by
      unfold selects at hsel
      simp only [Bool.and_eq_true] at hsel
      exact hsel.2
    rcases carrier_of_selected hU hC hx (item?_mem hj) (hT a e t ht) hsel' hc with h | h
    · exact Or.inl h.symm
    · exact Or.inr h

/-- **Coverage**: whatever the calculation of node `n` reads is enumerated as having `n` as a reverse
dependency. -/
theorem coverage (hU : UniqueIds cfg) (hR : ResistWF u) (hT : TgtKinds cfg d) (hC : ChargeWF cfg)
    {n m : Node} (h : m ∈ deps u cfg d n) : n ∈ rdeps u cfg d m := by
  obtain ⟨x, am, tx, hx, ham, htx, hcase⟩ := deps_cases h
  have hxm := item?_mem hx
  rw [node_eq hx ham]
  rcases hcase with ⟨s, hs, hm | ⟨c, r, hrr, hm⟩⟩ | ⟨hmx, hm1⟩
  · -- source attribute of a spec
    obtain ⟨hall, htgt, hsel⟩ := mem_specsOn.1 hs
    obtain ⟨a, ha, hsa⟩ := mem_allSpecs.1 hall
    obtain ⟨hsa_a, _, _, _⟩ := spec_wf hsa
    rw [hm, hsa_a, ← htgt]
    exact rdeps_src (item?_of_mem hU ha) hsa rfl (mem_affectees.2 ⟨hxm, tx, htx, hsel⟩)
  · -- resistance attribute on the carrier
    obtain ⟨a, ha, hp, hr, h0, t, ht, _, hid⟩ := resist_dep hU hR hT hC hxm hs hrr
    obtain ⟨_, htgt, hsel⟩ := mem_specsOn.1 hs
    have hcm : c ∈ cfg.items := by
      rcases carrierOf_mem (cfg := cfg) (carrierOf_eq x ▸ (resistRead_cases hrr).2.2) with rfl | hcm
      · exact hxm
      · exact hcm
    rw [hm, ← htgt]
    refine rdeps_res (item?_of_mem hU hcm) ha hp hr h0 ht ?_ (mem_affectees.2 ⟨hxm, tx, htx, hsel⟩)
    rcases hid with h | ⟨rfl, hown, hship⟩
    · exact Or.inl h
    · exact Or.inr ⟨hown, hship⟩
  · -- cap attribute
    have : m = (x.id, m.2) := by rw [← hm1]
    rw [this]
    exact rdeps_cap (item?_of_mem hU hxm) (attrMeta?_mem ham) hmx

/-- With no effect of item `i` running and `i` not a recorded target, a node of another item reads nothing
of `i`. -/
theorem dep_item_ne (hU : UniqueIds cfg) (hR : ResistWF u) (hT : TgtKinds cfg d) (hC : ChargeWF cfg)
    {i : Nat} (hon : ∀ e, d.on i e = false) (htg : ∀ a e, i ∉ d.tgts a e)
    {n m : Node} (hn : n.1 ≠ i) (h : m ∈ deps u cfg d n) : m.1 ≠ i := by
  obtain ⟨x, am, tx, hx, ham, htx, hcase⟩ := deps_cases h
  have hxm := item?_mem hx
  rcases hcase with ⟨s, hs, hm | ⟨c, r, hrr, hm⟩⟩ | ⟨_, hm1⟩
  · obtain ⟨hall, _, _⟩ := mem_specsOn.1 hs
    obtain ⟨a, ha, hsa⟩ := mem_allSpecs.1 hall
    obtain ⟨hsa_a, hrun, _, _⟩ := spec_wf hsa
    rw [hm, hsa_a]
    intro hi
    have hi' : a.id = i := hi
    have := (mem_running.1 hrun).2
    rw [hi', hon] at this; cases this
  · obtain ⟨a, _, _, _, _, t, ht, _, hid⟩ := resist_dep hU hR hT hC hxm hs hrr
    obtain ⟨j, hj, hjt⟩ := mem_targetsOf.1 ht
    rw [hm]
    intro hi
    rcases hid with hid | ⟨rfl, _, _⟩
    · have : j = i := by rw [← item?_id hjt, hid]; exact hi
      exact htg _ _ (this ▸ hj)
    · exact hn (by rw [← item?_id hx]; exact hi)
  · rw [hm1, item?_id hx]; exact hn

/-! ## List lemmas -/

theorem foldlM_congr_mem {ε α β : Type} {f g : β → α → Except ε β} (l : List α)
    (h : ∀ acc, ∀ a ∈ l, f acc a = g acc a) (init : β) : l.foldlM f init = l.foldlM g init := by
  induction l generalizing init with
  | nil => rfl
  | cons a l ih =>
    rw [List.foldlM_cons, List.foldlM_cons, h init a List.mem_cons_self]
    congr 1; funext b
    exact ih (fun acc a' ha' => h acc a' (List.mem_cons_of_mem _ ha')) b

theorem flatMap_congr_mem {α β : Type} {l : List α} {f g : α → List β} (h : ∀ a ∈ l, f a = g a) :
    l.flatMap f = l.flatMap g := by
  induction l with
  | nil => rfl
  | cons a l ih =>
    rw [List.flatMap_cons, List.flatMap_cons, h a List.mem_cons_self,
      ih (fun b hb => h b (List.mem_cons_of_mem _ hb))]

theorem filter_flatMap_congr {α β : Type} {l : List α} {f g : α → List β} {p : β → Bool}
    (h : ∀ a ∈ l, (f a).filter p = (g a).filter p) : (l.flatMap f).filter p = (l.flatMap g).filter p := by
  rw [List.filter_flatMap, List.filter_flatMap]; exact flatMap_congr_mem h

/-- Changing the filter of the outer list does not matter where the inner lists have no `p`-element. -/
theorem filter_flatMap_filter_congr {α β : Type} (T : List α) (q q' : α → Bool) (G : α → List β) (p : β → Bool)
    (h : ∀ e ∈ T, q e ≠ q' e → (G e).filter p = []) :
    ((T.filter q).flatMap G).filter p = ((T.filter q').flatMap G).filter p := by
  induction T with
  | nil => rfl
  | cons e T ih =>
    have ih' := ih (fun e' he' => h e' (List.mem_cons_of_mem _ he'))
    have he := h e List.mem_cons_self
    cases hq : q e <;> cases hq' : q' e <;>
      simp only [List.filter_cons, hq, hq', List.flatMap_cons, List.filter_append, ih', if_true,
        Bool.false_eq_true, if_false]
    · rw [he (by simp [hq, hq'])]; rfl
    · rw [he (by simp [hq, hq'])]; rfl

theorem filter_flatMap_filterMap_filter {ι α β : Type} (L : List ι) (q : ι → Bool) (f : ι → Option α)
    (H : α → List β) (p : β → Bool)
    (h : ∀ j ∈ L, q j = false → ∀ t, f j = some t → (H t).filter p = []) :
    (((L.filter q).filterMap f).flatMap H).filter p = ((L.filterMap f).flatMap H).filter p := by
  induction L with
  | nil => rfl
  | cons j L ih =>
    have ih' := ih (fun j' hj' => h j' (List.mem_cons_of_mem _ hj'))
    have hj := h j List.mem_cons_self
    cases hq : q j <;> cases hf : f j <;>
      simp only [List.filter_cons, hq, List.filterMap_cons, hf, List.flatMap_cons, List.filter_append, ih',
        if_true, Bool.false_eq_true, if_false]
    rw [hj hq _ hf]; rfl

/-! ## The calculation of a node depends on the dynamic state only through three things -/

/-- Node `n` is calculated in the same way under `d` and `d'`: same type of its item, same affector specs,
same types of their carriers (stacking-penalty immunity). -/
structure SameCalc (u : Universe) (cfg : Config) (d d' : Dyn) (n : Node) : Prop where
  ty : ∀ x, item? cfg n.1 = some x → typeOf? u d' x = typeOf? u d x
  sp : ∀ x am tx, item? cfg n.1 = some x → attrMeta? u n.2 = some am → typeOf? u d x = some tx →
    specsOn u cfg d' x tx am.id = specsOn u cfg d x tx am.id
  imm : ∀ x am tx, item? cfg n.1 = some x → attrMeta? u n.2 = some am → typeOf? u d x = some tx →
    ∀ s ∈ specsOn u cfg d x tx am.id, typeOf? u d' s.a = typeOf? u d s.a

theorem SameCalc.deps_eq {d' : Dyn} {n : Node} (h : SameCalc u cfg d d' n) :
    deps u cfg d' n = deps u cfg d n := by
  unfold deps
  cases hx : item? cfg n.1 with
  | none => rfl
  | some x =>
    cases ham : attrMeta? u n.2 with
    | none => rfl
    | some am =>
      simp only [h.ty x hx]
      cases htx : typeOf? u d x with
      | none => rfl
      | some tx => simp only [h.sp x am tx hx ham htx]

theorem SameCalc.eval_eq {d' : Dyn} {n : Node} (h : SameCalc u cfg d d' n) (immune limited : List Int)
    (pen : Nat → Rat) (f : Node → Option Rat) :
    evalD u cfg d' immune limited pen n f = evalD u cfg d immune limited pen n f := by
  unfold evalD
  cases hx : item? cfg n.1 with
  | none => rfl
  | some x =>
    cases ham : attrMeta? u n.2 with
    | none => rfl
    | some am =>
      dsimp only
      congr 1
      unfold valueOfD
      simp only [h.ty x hx]
      cases htx : typeOf? u d x with
      | none => rfl
      | some tx =>
        have hg : gatherD u cfg d' immune (readerOf u f) x tx am.id =
            gatherD u cfg d immune (readerOf u f) x tx am.id := by
          unfold gatherD
          rw [h.sp x am tx hx ham htx]
          refine foldlM_congr_mem _ (fun acc s hs => ?_) _
          have : immuneOf u d' immune s.a = immuneOf u d immune s.a := by
            unfold immuneOf; rw [h.imm x am tx hx ham htx s hs]
          rw [this]
        simp only [hg]

/-! ## Static presence of a node -/

/-- The node has a value for static reasons: a skill's level, or a loaded item whose type (or the attribute's
default) provides a base value. -/
def present (u : Universe) (cfg : Config) (d : Dyn) (n : Node) : Bool :=
  match item? cfg n.1, attrMeta? u n.2 with
  | some x, some am =>
    if x.kind == .skill && am.id == 280 then x.level.isSome else
    match typeOf? u d x with
    | none => false
    | some tx => (baseOf tx am).isSome
  | _, _ => false

theorem present_congr {d' : Dyn} {n : Node} (h : ∀ x, item? cfg n.1 = some x → typeOf? u d' x = typeOf? u d x) :
    present u cfg d' n = present u cfg d n := by
  unfold present
  cases hx : item? cfg n.1 with
  | none => rfl
  | some x =>
    cases ham : attrMeta? u n.2 with
    | none => rfl
    | some am => simp only [h x hx]

/-! ## Per-effect spec generators -/

def locOf (a : Item) (e : Effect) : List Spec := (e.mods.filter (·.domain != 4)).map fun m => ⟨a, e, m, none⟩

def projOf (u : Universe) (cfg : Config) (d : Dyn) (a : Item) (e : Effect) : List Spec :=
  if e.category == 2 || e.isBuff then
    (targetsOf cfg d a e).flatMap fun t => (projMods u d a e).map fun m => ⟨a, e, m, some t⟩
  else []

/-- "Spec `s` modifies attribute `attr` of `x`". -/
def hits (cfg : Config) (attr : Int) (x : Item) (tx : ItemType) (s : Spec) : Bool :=
  s.m.tgtAttr == attr && selects cfg s x tx

theorem specsOn_eq (x : Item) (tx : ItemType) (attr : Int) :
    specsOn u cfg d x tx attr =
      (cfg.items.flatMap fun a => (running u d a).flatMap (locOf a) ++ (running u d a).flatMap (projOf u cfg d a)).filter
        (hits cfg attr x tx) := rfl

/-- Switching effects on or off changes the specs on `(x, attr)` only by specs of the switched effects. -/
theorem specsOn_congr_on {d' : Dyn} (hl : d'.loaded = d.loaded) (ht : d'.tgts = d.tgts)
    (hb : d'.bspecs = d.bspecs) {x : Item}
    {tx : ItemType} {attr : Int}
    (h : ∀ a ∈ cfg.items, ∀ e ∈ typeEffects u d a, d'.on a.id e.id ≠ d.on a.id e.id →
      (locOf a e).filter (hits cfg attr x tx) = [] ∧ (projOf u cfg d a e).filter (hits cfg attr x tx) = []) :
    specsOn u cfg d' x tx attr = specsOn u cfg d x tx attr := by
  have hte : ∀ a, typeEffects u d' a = typeEffects u d a := by
    intro a; unfold typeEffects typeOf?; rw [hl]
  have hpo : ∀ a e, projOf u cfg d' a e = projOf u cfg d a e := by
    intro a e; unfold projOf targetsOf projMods; rw [ht, hb]
  rw [specsOn_eq, specsOn_eq]
  apply filter_flatMap_congr
  intro a ha
  rw [List.filter_append, List.filter_append]
  unfold running
  rw [hte]
  have hpo' : projOf u cfg d' a = projOf u cfg d a := funext (hpo a)
  rw [hpo']
  congr 1
  · exact filter_flatMap_filter_congr _ _ _ _ _ (fun e he hne => (h a ha e he hne).1)
  · exact filter_flatMap_filter_congr _ _ _ _ _ (fun e he hne => (h a ha e he hne).2)

/-- Changing recorded targets changes the specs on `(x, attr)` only through the projected specs. -/
theorem specsOn_congr_tgts {d' : Dyn} (hl : d'.loaded = d.loaded) (ho : d'.on = d.on) {x : Item}
    {tx : ItemType} {attr : Int}
    (h : ∀ a ∈ cfg.items, ∀ e ∈ running u d a,
      (projOf u cfg d' a e).filter (hits cfg attr x tx) = (projOf u cfg d a e).filter (hits cfg attr x tx)) :
    specsOn u cfg d' x tx attr = specsOn u cfg d x tx attr := by
  have hrun : ∀ a, running u d' a = running u d a := by
    intro a; unfold running typeEffects typeOf?; rw [hl, ho]
  rw [specsOn_eq, specsOn_eq]
  apply filter_flatMap_congr
  intro a ha
  rw [List.filter_append, List.filter_append, hrun]
  congr 1
  exact filter_flatMap_congr (h a ha)

/-! ## Direct invalidation targets -/

theorem hits_iff {attr : Int} {x : Item} {tx : ItemType} {s : Spec} :
    hits cfg attr x tx s = true ↔ s.m.tgtAttr = attr ∧ selects cfg s x tx = true := by
  unfold hits; simp

theorem mem_directOf {d0 : Dyn} {specs : List Spec} {s : Spec} {x : Item} (hs : s ∈ specs)
    (hx : x ∈ affectees u cfg d0 s) : (x.id, s.m.tgtAttr) ∈ directOf u cfg d0 specs :=
  List.mem_flatMap.2 ⟨s, hs, List.mem_map.2 ⟨x, hx, rfl⟩⟩

theorem mem_localSpecsOf (hU : UniqueIds cfg) {d0 : Dyn} {i : Nat} {es : List Int} {a : Item} {s : Spec}
    (ha : a ∈ cfg.items) (hai : a.id = i) (hs : s ∈ localSpecs u d0 a) (hes : s.e.id ∈ es) :
    s ∈ localSpecsOf u cfg d0 i es := by
  unfold localSpecsOf
  rw [← hai, item?_of_mem hU ha]
  exact List.mem_filter.2 ⟨hs, by simpa using hes⟩

theorem mem_projSpecsOf (hU : UniqueIds cfg) {d0 : Dyn} {i : Nat} {e0 : Int} {ts : List Nat} {a t : Item}
    {s : Spec} (ha : a ∈ cfg.items) (hai : a.id = i) (hs : s ∈ projSpecs u cfg d0 a) (he : s.e.id = e0)
    (htg : s.tg = some t) (hts : t.id ∈ ts) : s ∈ projSpecsOf u cfg d0 i e0 ts := by
  unfold projSpecsOf
  rw [← hai, item?_of_mem hU ha]
  exact List.mem_filter.2 ⟨hs, by simp [he, htg, hts]⟩

/-- A local spec of a switched effect that hits node `n` makes `n` a direct target of the start / stop. -/
theorem local_hit_direct (hU : UniqueIds cfg) {d0 : Dyn} {i : Nat} {es : List Int} {a x : Item} {e : Effect}
    {am : AttrMeta} {tx : ItemType} {n : Node} {s : Spec} (ha : a ∈ cfg.items) (hai : a.id = i)
    (he : e ∈ running u d0 a) (hes : e.id ∈ es) (hs : s ∈ locOf a e)
    (hx : item? cfg n.1 = some x) (ham : attrMeta? u n.2 = some am) (htx : typeOf? u d0 x = some tx)
    (hh : hits cfg am.id x tx s = true) : n ∈ directOf u cfg d0 (localSpecsOf u cfg d0 i es) := by
  obtain ⟨m, hm, rfl⟩ := List.mem_map.1 hs
  obtain ⟨hm, hd⟩ := List.mem_filter.1 hm
  obtain ⟨htgt, hsel⟩ := hits_iff.1 hh
  have hsl : (⟨a, e, m, none⟩ : Spec) ∈ localSpecs u d0 a :=
    mem_localSpecs.2 ⟨e, he, m, hm, by simpa using hd, rfl⟩
  have := mem_directOf (mem_localSpecsOf hU ha hai hsl hes)
    (mem_affectees.2 ⟨item?_mem hx, tx, htx, hsel⟩)
  rw [node_eq hx ham]
  rw [show (⟨a, e, m, none⟩ : Spec).m.tgtAttr = am.id from htgt] at this
  exact this

/-- A projected spec of the (un)applied effect onto one of the (un)applied targets that hits node `n` makes
`n` a direct target of the apply / unapply. -/
theorem proj_hit_direct (hU : UniqueIds cfg) {d0 : Dyn} {i : Nat} {e0 : Int} {ts : List Nat} {a x t : Item}
    {e : Effect} {am : AttrMeta} {tx : ItemType} {n : Node} {s : Spec} (ha : a ∈ cfg.items) (hai : a.id = i)
    (he : e ∈ running u d0 a) (hcat : (e.category == 2 || e.isBuff) = true) (hee : e.id = e0)
    (ht : t ∈ targetsOf cfg d0 a e) (hts : t.id ∈ ts)
    (hs : s ∈ (projMods u d0 a e).map fun m => (⟨a, e, m, some t⟩ : Spec))
    (hx : item? cfg n.1 = some x) (ham : attrMeta? u n.2 = some am) (htx : typeOf? u d0 x = some tx)
    (hh : hits cfg am.id x tx s = true) : n ∈ directOf u cfg d0 (projSpecsOf u cfg d0 i e0 ts) := by
  obtain ⟨m, hm, rfl⟩ := List.mem_map.1 hs
  obtain ⟨htgt, hsel⟩ := hits_iff.1 hh
  have hsp : (⟨a, e, m, some t⟩ : Spec) ∈ projSpecs u cfg d0 a :=
    mem_projSpecs.2 ⟨e, he, by simpa using hcat, t, ht, m, hm, rfl⟩
  have := mem_directOf (mem_projSpecsOf hU ha hai hsp hee rfl hts)
    (mem_affectees.2 ⟨item?_mem hx, tx, htx, hsel⟩)
  rw [node_eq hx ham]
  rw [show (⟨a, e, m, some t⟩ : Spec).m.tgtAttr = am.id from htgt] at this
  exact this

/-! ## Nodes that keep their calculation, per step kind -/

/-- Start / stop (`v = true / false`) of effects `es` of item `i`, none of which has recorded targets:
a node that is not a direct target keeps its calculation.  `d1` is the state in which the switched effects
run (the new state for a start, the old one for a stop). -/
theorem sameCalc_setOn (hU : UniqueIds cfg) {i : Nat} {es : List Int} {v : Bool}
    (htg : ∀ e ∈ es, d.tgts i e = []) (d1 : Dyn) (hl1 : d1.loaded = d.loaded)
    (hon1 : ∀ e, e ∈ es → (setOn d i es v).on i e ≠ d.on i e → d1.on i e = true)
    {n : Node} (hnd : n ∉ directOf u cfg d1 (localSpecsOf u cfg d1 i es)) :
    SameCalc u cfg d (setOn d i es v) n where
  ty := fun _ _ => rfl
  imm := fun _ _ _ _ _ _ _ _ => rfl
  sp := by
    intro x am tx hx ham htx
    have hty1 : ∀ y, typeOf? u d1 y = typeOf? u d y := by intro y; unfold typeOf?; rw [hl1]
    have hte1 : ∀ y, typeEffects u d1 y = typeEffects u d y := by intro y; unfold typeEffects; rw [hty1]
    refine specsOn_congr_on (by rfl) (by rfl) (by rfl) (fun a ha e he hne => ?_)
    have hc : a.id = i ∧ e.id ∈ es := by
      by_cases hc : a.id = i ∧ e.id ∈ es
      · exact hc
      · exact absurd (by simp only [setOn]; rw [if_neg hc]) hne
    obtain ⟨hai, hes⟩ := hc
    subst hai
    constructor
    · refine List.filter_eq_nil_iff.2 (fun s hs hh => hnd ?_)
      have her : e ∈ running u d1 a := mem_running.2 ⟨by rw [hte1]; exact he, hon1 e.id hes hne⟩
      exact local_hit_direct hU ha rfl her hes hs hx ham (by rw [hty1]; exact htx) hh
    · unfold projOf targetsOf
      rw [htg _ hes]; simp

/-- `EffectApplied` of targets `ts`, of which `ts'` are recorded in addition (those not recorded yet): a node
that is not a direct target keeps its calculation. -/
theorem sameCalc_apply (hU : UniqueIds cfg) {i : Nat} {e0 : Int} {ts ts' : List Nat} {n : Node}
    (hsub : ∀ j ∈ ts', j ∈ ts)
    (hnd : n ∉ directOf u cfg (setTgts d i e0 (d.tgts i e0 ++ ts'))
      (projSpecsOf u cfg (setTgts d i e0 (d.tgts i e0 ++ ts')) i e0 ts)) :
    SameCalc u cfg d (setTgts d i e0 (d.tgts i e0 ++ ts')) n where
  ty := fun _ _ => rfl
  imm := fun _ _ _ _ _ _ _ _ => rfl
  sp := by
    intro x am tx hx ham htx
    refine specsOn_congr_tgts (by rfl) (by rfl) (fun a ha e he => ?_)
    have hpm : projMods u (setTgts d i e0 (d.tgts i e0 ++ ts')) a e = projMods u d a e := rfl
    by_cases hc : a.id = i ∧ e.id = e0
    · obtain ⟨hai, hee⟩ := hc
      have htgs : targetsOf cfg (setTgts d i e0 (d.tgts i e0 ++ ts')) a e =
          targetsOf cfg d a e ++ ts'.filterMap (item? cfg) := by
        unfold targetsOf; simp only [setTgts]
        rw [if_pos ⟨hai, hee⟩, List.filterMap_append, hai, hee]
      unfold projOf
      cases hcat : (e.category == 2 || e.isBuff) with
      | false => rfl
      | true =>
        simp only [if_true]
        rw [htgs, hpm, List.flatMap_append, List.filter_append]
        rw [show List.filter (hits cfg am.id x tx) (List.flatMap (fun t =>
            (projMods u d a e).map fun m => (⟨a, e, m, some t⟩ : Spec)) (ts'.filterMap (item? cfg))) = [] from ?_]
        · rw [List.append_nil]
        · refine List.filter_eq_nil_iff.2 (fun s hs hh => hnd ?_)
          obtain ⟨t, ht, hs⟩ := List.mem_flatMap.1 hs
          obtain ⟨j, hj, hjt⟩ := List.mem_filterMap.1 ht
          have htt : t ∈ targetsOf cfg (setTgts d i e0 (d.tgts i e0 ++ ts')) a e := by
            rw [htgs]; exact List.mem_append_right _ ht
          exact proj_hit_direct hU ha hai he hcat hee htt (by rw [item?_id hjt]; exact hsub j hj) hs hx ham htx hh
    · have : projOf u cfg (setTgts d i e0 (d.tgts i e0 ++ ts')) a e = projOf u cfg d a e := by
        unfold projOf; rw [hpm]; unfold targetsOf; simp only [setTgts]; rw [if_neg hc]
      rw [this]

/-- `EffectUnapplied`: a node that is not a direct target keeps its calculation. -/
theorem sameCalc_unapply (hU : UniqueIds cfg) {i : Nat} {e0 : Int} {ts : List Nat} {n : Node}
    (hnd : n ∉ directOf u cfg d (projSpecsOf u cfg d i e0 ts)) :
    SameCalc u cfg d (setTgts d i e0 ((d.tgts i e0).filter fun t => !ts.contains t)) n where
  ty := fun _ _ => rfl
  imm := fun _ _ _ _ _ _ _ _ => rfl
  sp := by
    intro x am tx hx ham htx
    refine specsOn_congr_tgts (by rfl) (by rfl) (fun a ha e he => ?_)
    by_cases hc : a.id = i ∧ e.id = e0
    · obtain ⟨hai, hee⟩ := hc
      have hpm : projMods u (setTgts d i e0 ((d.tgts i e0).filter fun t => !ts.contains t)) a e =
          projMods u d a e := rfl
      unfold projOf
      cases hcat : (e.category == 2 || e.isBuff) with
      | false => rfl
      | true =>
        simp only [if_true]
        rw [hpm]
        unfold targetsOf; simp only [setTgts]
        rw [if_pos ⟨hai, hee⟩, hai, hee]
        refine filter_flatMap_filterMap_filter _ _ _ _ _ (fun j hj hq t hjt => ?_)
        refine List.filter_eq_nil_iff.2 (fun s hs hh => hnd ?_)
        have htt : t ∈ targetsOf cfg d a e := by
          rw [mem_targetsOf, hai, hee]; exact ⟨j, hj, hjt⟩
        have hts : t.id ∈ ts := by rw [item?_id hjt]; simpa using hq
        exact proj_hit_direct hU ha hai he hcat hee htt hts hs hx ham htx hh
    · have : projOf u cfg (setTgts d i e0 ((d.tgts i e0).filter fun t => !ts.contains t)) a e = projOf u cfg d a e := by
        unfold projOf targetsOf; simp only [setTgts]; rw [if_neg hc]; rfl
      rw [this]

/-- The dynamic state after `MStep.buffset`. -/
def setBspecs (d : Dyn) (i : Nat) (e : Int) (ms : List Modifier) : Dyn :=
  { d with bspecs := fun j f => if j = i ∧ f = e then ms else d.bspecs j f }

/-- A projector without recorded targets has no projected specs, whatever its registered warfare-buff
modifiers: replacing them changes no item's projected specs. -/
theorem projSpecs_setBspecs {i : Nat} {e0 : Int} {ms : List Modifier} (htg : d.tgts i e0 = []) (a : Item) :
    projSpecs u cfg (setBspecs d i e0 ms) a = projSpecs u cfg d a := by
  unfold projSpecs
  show (running u d a).flatMap _ = _
  refine flatMap_congr_mem (fun e _ => ?_)
  by_cases hc : a.id = i ∧ e.id = e0
  · have h0 : ∀ d0 : Dyn, d0.tgts = d.tgts → targetsOf cfg d0 a e = [] := by
      intro d0 h0; unfold targetsOf; rw [h0, hc.1, hc.2, htg]; rfl
    rw [h0 d rfl, h0 (setBspecs d i e0 ms) rfl]
    simp only [List.flatMap_nil]
  · have : projMods u (setBspecs d i e0 ms) a e = projMods u d a e := by
      unfold projMods setBspecs; simp only [if_neg hc]
    rw [this]; rfl

/-- `buffset` for a projector without recorded targets: every node keeps its calculation. -/
theorem sameCalc_setBspecs {i : Nat} {e0 : Int} {ms : List Modifier} (htg : d.tgts i e0 = []) (n : Node) :
    SameCalc u cfg d (setBspecs d i e0 ms) n := by
  have hall : allSpecs u cfg (setBspecs d i e0 ms) = allSpecs u cfg d := by
    unfold allSpecs
    refine flatMap_congr_mem (fun a _ => ?_)
    rw [projSpecs_setBspecs htg]; rfl
  refine ⟨fun _ _ => rfl, ?_, fun _ _ _ _ _ _ _ _ => rfl⟩
  intro x am tx _ _ _
  unfold specsOn; rw [hall]

/-- The dynamic state after `ItemLoaded` / `ItemUnloaded` of item `i`. -/
def setLoaded (d : Dyn) (i : Nat) (v : Bool) : Dyn :=
  { d with loaded := fun j => if j = i then v else d.loaded j }

theorem typeOf?_setLoaded {i : Nat} {v : Bool} {y : Item} (h : y.id ≠ i) :
    typeOf? u (setLoaded d i v) y = typeOf? u d y := by
  unfold typeOf? setLoaded; simp only [if_neg h]

theorem running_setLoaded {i : Nat} {v : Bool} (hon : ∀ e, d.on i e = false) (a : Item) :
    running u (setLoaded d i v) a = running u d a := by
  by_cases hai : a.id = i
  · have h0 : ∀ d0 : Dyn, d0.on = d.on → running u d0 a = [] := by
      intro d0 h0
      unfold running
      refine List.filter_eq_nil_iff.2 (fun e _ => ?_)
      rw [h0, hai, hon]; simp
    rw [h0 (setLoaded d i v) rfl, h0 d rfl]
  · unfold running typeEffects
    rw [typeOf?_setLoaded hai]; rfl

/-- Load / unload of an item none of whose effects runs: nodes of other items keep their calculation. -/
theorem sameCalc_setLoaded {i : Nat} {v : Bool} (hon : ∀ e, d.on i e = false) {n : Node} (hn : n.1 ≠ i) :
    SameCalc u cfg d (setLoaded d i v) n := by
  have hall : allSpecs u cfg (setLoaded d i v) = allSpecs u cfg d := by
    unfold allSpecs
    refine flatMap_congr_mem (fun a _ => ?_)
    have hl : localSpecs u (setLoaded d i v) a = localSpecs u d a := by
      unfold localSpecs; rw [running_setLoaded hon]
    have hp : projSpecs u cfg (setLoaded d i v) a = projSpecs u cfg d a := by
      unfold projSpecs; rw [running_setLoaded hon]; rfl
    rw [hl, hp]
  refine ⟨fun x hx => typeOf?_setLoaded (by rw [item?_id hx]; exact hn), ?_, ?_⟩
  · intro x am tx _ _ _
    unfold specsOn; rw [hall]
  · intro x am tx _ _ _ s hs
    obtain ⟨hsall, _, _⟩ := mem_specsOn.1 hs
    obtain ⟨a, _, hsa⟩ := mem_allSpecs.1 hsall
    obtain ⟨hsa_a, hrun, _, _⟩ := spec_wf hsa
    refine typeOf?_setLoaded (fun hai => ?_)
    have := (mem_running.1 hrun).2
    rw [← hsa_a, hai, hon] at this; cases this

/-! ## The graph family and the abstract machine -/

/-- `W` is the dependency-graph family of the message-level model: its dependencies are those of `Micro.deps`
that `keep` retains (`keep` depends on universe and configuration only), its evaluation is `Micro.evalD`. -/
structure Ties (u : Universe) (immune limited : List Int) (pen : Nat → Rat) (keep : Config → Node → Bool)
    (W : Config × Dyn → Graph Node Rat) : Prop where
  hdeps : ∀ cfg d n, (W (cfg, d)).deps n = (deps u cfg d n).filter (keep cfg)
  heval : ∀ cfg d n f, (W (cfg, d)).eval n f = evalD u cfg d immune limited pen n f

/-- In state `(cfg, d)` a node has a from-scratch value exactly when it is statically present: no
calculation ends in a division by zero (the "non-zero divisors" part of the property's quantifier). -/
def StaticAt (u : Universe) (W : Config × Dyn → Graph Node Rat) (cfg : Config) (d : Dyn) : Prop :=
  ∀ n, spec (W (cfg, d)) n ≠ none ↔ present u cfg d n = true

/-- Entries removed between two caches. -/
def removed (K K' : Cache) (n : Node) : Bool := (K n).isSome && (K' n).isNone

/-- The machine state of a message-level state. -/
def toState (s : MState) : State (Config × Dyn) Node Rat := ⟨(s.cfg, s.dyn), s.cache⟩

section legal
variable {immune limited : List Int} {pen : Nat → Rat} {keep : Config → Node → Bool}
  {W : Config × Dyn → Graph Node Rat}

theorem hasMeta_of_spec (T : Ties u immune limited pen keep W) {n : Node} (h : spec (W (cfg, d)) n ≠ none) :
    HasMeta u n := by
  rw [spec_unfold, T.heval] at h
  unfold evalD at h
  unfold HasMeta
  cases ham : attrMeta? u n.2 with
  | some am => rfl
  | none =>
    rw [ham] at h
    cases hx : item? cfg n.1 <;> rw [hx] at h <;> exact absurd rfl h

theorem hasMeta_of_cached (T : Ties u immune limited pen keep W) {K : Cache} (hg : Inv (W (cfg, d)) K)
    {n : Node} (h : K n ≠ none) : HasMeta u n := by
  cases hk : K n with
  | none => exact absurd hk h
  | some v => exact hasMeta_of_spec T (by rw [hg.coh n v hk]; exact Option.some_ne_none v)

/-- A step that only removes entries is legal when the survivors keep their calculation, no cached
dependency of a survivor is removed, and absence of a survivor's dependency is stable. -/
theorem legal_of_sub {c c' : Config × Dyn} {K K' : Cache} (hsub : Cascade.Sub K K')
    (h1 : ∀ n, K' n ≠ none → (W c').deps n = (W c).deps n ∧ ∀ f, (W c').eval n f = (W c).eval n f)
    (h2 : ∀ n m, K' n ≠ none → m ∈ (W c').deps n → K m ≠ none → K' m ≠ none)
    (h3 : ∀ n m, K' n ≠ none → m ∈ (W c').deps n → (spec (W c) m = none ↔ spec (W c') m = none)) :
    Legal W ⟨c, K⟩ (.change c' (removed K K')) ∧ K' = restrict K (removed K K') := by
  have hsurv : ∀ n, K n ≠ none → removed K K' n = false → K' n ≠ none := by
    intro n hK hR hK'
    unfold removed at hR
    cases hk : K n with
    | none => exact hK hk
    | some v => rw [hk, hK'] at hR; cases hR
  refine ⟨⟨fun n hK hR => h1 n (hsurv n hK hR), fun n hK hR m hm => ?_, fun n hK hR m hm => h3 n m (hsurv n hK hR) hm⟩, ?_⟩
  · unfold removed
    cases hkm : K m with
    | none => rfl
    | some v =>
      have := h2 n m (hsurv n hK hR) hm (by rw [hkm]; exact Option.some_ne_none v)
      cases hkm' : K' m with
      | none => exact absurd hkm' this
      | some w => rfl
  · funext n
    unfold restrict removed
    rcases hsub n with h | h
    · cases hk : K n with
      | none => simp [h]
      | some v => simp [h]
    · cases hk : K n with
      | none => simp [h, hk]
      | some v => simp [h, hk]

/-- Coverage turns closedness of the removal set under `rdeps` into the second clause of `Legal`. -/
theorem closed_h2 (T : Ties u immune limited pen keep W) (hU : UniqueIds cfg) (hR : ResistWF u)
    (hT : TgtKinds cfg d) (hC : ChargeWF cfg) {K K' : Cache} (hcl : Cascade.Closed (rdeps u cfg d) K K') :
    ∀ n m, K' n ≠ none → m ∈ (W (cfg, d)).deps n → K m ≠ none → K' m ≠ none := by
  intro n m hn hm hKm hKm'
  rw [T.hdeps] at hm
  exact hn (hcl m hKm hKm' n (coverage hU hR hT hC (List.mem_filter.1 hm).1))

theorem sameCalc_h1 (T : Ties u immune limited pen keep W) {d' : Dyn} {n : Node}
    (h : SameCalc u cfg d d' n) :
    (W (cfg, d')).deps n = (W (cfg, d)).deps n ∧ ∀ f, (W (cfg, d')).eval n f = (W (cfg, d)).eval n f := by
  refine ⟨by rw [T.hdeps, T.hdeps, h.deps_eq], fun f => ?_⟩
  rw [T.heval, T.heval, h.eval_eq]

theorem static_h3 {d' : Dyn} (hst : StaticAt u W cfg d) (hst' : StaticAt u W cfg d') {m : Node}
    (h : ∀ x, item? cfg m.1 = some x → typeOf? u d' x = typeOf? u d x) :
    spec (W (cfg, d)) m = none ↔ spec (W (cfg, d')) m = none := by
  have h1 := hst m
  have h2 := hst' m
  rw [present_congr h] at h2
  constructor
  · intro h0
    cases hs : spec (W (cfg, d')) m with
    | none => rfl
    | some v => exact absurd h0 (h1.2 (h2.1 (by rw [hs]; exact Option.some_ne_none v)))
  · intro h0
    cases hs : spec (W (cfg, d)) m with
    | none => rfl
    | some v => exact absurd h0 (h2.2 (h1.1 (by rw [hs]; exact Option.some_ne_none v)))

/-- Start / stop / apply / unapply: the registers change to `d'` (loaded flags untouched), the nodes `direct`
are force-recalculated and the change messages cascade in the new registers. -/
theorem legal_visitAll (T : Ties u immune limited pen keep W) (hwf : RankWF u) (hun : UniqueAttrs u)
    (hR : ResistWF u) {d' : Dyn} {K : Cache} (direct : List Node) (hg : Inv (W (cfg, d)) K)
    (hU : UniqueIds cfg) (hC : ChargeWF cfg) (hT' : TgtKinds cfg d') (hl : d'.loaded = d.loaded)
    (hst : StaticAt u W cfg d) (hst' : StaticAt u W cfg d')
    (hsame : ∀ n, n ∉ direct → SameCalc u cfg d d' n) :
    Legal W ⟨(cfg, d), K⟩ (.change (cfg, d') (removed K (visitAll u cfg d' (fuelOf u) K direct))) ∧
    visitAll u cfg d' (fuelOf u) K direct = restrict K (removed K (visitAll u cfg d' (fuelOf u) K direct)) := by
  obtain ⟨hsub, hdir, hcl⟩ := visitAll_contract u cfg d' hwf hun K (fun x hx => hasMeta_of_cached T hg hx) direct
  have hnd : ∀ n, visitAll u cfg d' (fuelOf u) K direct n ≠ none → n ∉ direct := fun n hn hd => hn (hdir n hd)
  refine legal_of_sub hsub (fun n hn => sameCalc_h1 T (hsame n (hnd n hn))) (closed_h2 T hU hR hT' hC hcl)
    (fun n m _ _ => static_h3 hst hst' (fun x _ => by unfold typeOf?; rw [hl]))

/-- `AttrsValueChanged` for an arbitrary node: nothing but the cache changes. -/
theorem legal_changed (T : Ties u immune limited pen keep W) (hwf : RankWF u) (hun : UniqueAttrs u)
    (hR : ResistWF u) {K : Cache} (n0 : Node) (hg : Inv (W (cfg, d)) K) (hU : UniqueIds cfg)
    (hC : ChargeWF cfg) (hT : TgtKinds cfg d) :
    Legal W ⟨(cfg, d), K⟩ (.change (cfg, d) (removed K (casc u cfg d (fuelOf u) K n0))) ∧
    casc u cfg d (fuelOf u) K n0 = restrict K (removed K (casc u cfg d (fuelOf u) K n0)) := by
  obtain ⟨hsub, _, hcl⟩ := casc_contract u cfg d hwf hun K (fun x hx => hasMeta_of_cached T hg hx) n0
  exact legal_of_sub hsub (fun n _ => ⟨rfl, fun _ => rfl⟩) (closed_h2 T hU hR hT hC hcl) (fun _ _ _ _ => Iff.rfl)

/-- Two graphs with the same evaluation have the same from-scratch values. -/
theorem spec_congr_graph {N V : Type} (G G' : Graph N V) (he : ∀ n f, G'.eval n f = G.eval n f) :
    ∀ n, spec G' n = spec G n := by
  intro n
  induction h : G.rank n using Nat.strongRecOn generalizing n with
  | _ k ih =>
    rw [spec_unfold G', spec_unfold G, he]
    exact G.eval_local n _ _ (fun m hm => ih (G.rank m) (h ▸ G.acyclic n m hm) m rfl)

/-- `buffset` for a projector without recorded targets: the graph does not change and nothing is removed. -/
theorem legal_setBspecs (T : Ties u immune limited pen keep W) {i : Nat} {e0 : Int} {ms : List Modifier}
    {K : Cache} (htg : d.tgts i e0 = []) :
    Legal W ⟨(cfg, d), K⟩ (.change (cfg, setBspecs d i e0 ms) (removed K K)) ∧ K = restrict K (removed K K) := by
  have h1 : ∀ n, (W (cfg, setBspecs d i e0 ms)).deps n = (W (cfg, d)).deps n ∧
      ∀ f, (W (cfg, setBspecs d i e0 ms)).eval n f = (W (cfg, d)).eval n f :=
    fun n => sameCalc_h1 T (sameCalc_setBspecs htg n)
  have hspec := spec_congr_graph (W (cfg, d)) (W (cfg, setBspecs d i e0 ms)) (fun n f => (h1 n).2 f)
  exact legal_of_sub (Cascade.Sub.refl _) (fun n _ => h1 n) (fun _ _ _ _ h => h)
    (fun n m _ _ => by rw [hspec m])

theorem tgtKinds_setLoaded {i : Nat} {v : Bool} (hT : TgtKinds cfg d) : TgtKinds cfg (setLoaded d i v) := hT

/-- `ItemLoaded` / `ItemUnloaded` of item `i` (`v = true / false`): none of its effects runs, it is not a
recorded target, and afterwards nothing of `i` is cached (`K'` is `K` without — some or all of — `i`'s
entries, of which there are none before a load). -/
theorem legal_setLoaded (T : Ties u immune limited pen keep W) (hR : ResistWF u) {i : Nat} {v : Bool}
    {K K' : Cache} (hU : UniqueIds cfg) (hC : ChargeWF cfg) (hT : TgtKinds cfg d)
    (hon : ∀ e, d.on i e = false) (htg : ∀ a e, i ∉ d.tgts a e)
    (hst : StaticAt u W cfg d) (hst' : StaticAt u W cfg (setLoaded d i v))
    (hK' : ∀ n, K' n = if n.1 = i then none else K n) :
    Legal W ⟨(cfg, d), K⟩ (.change (cfg, setLoaded d i v) (removed K K')) ∧ K' = restrict K (removed K K') := by
  have hne : ∀ n, K' n ≠ none → n.1 ≠ i := by
    intro n hn hi; rw [hK', if_pos hi] at hn; exact hn rfl
  have hdep : ∀ n m, K' n ≠ none → m ∈ (W (cfg, setLoaded d i v)).deps n → m.1 ≠ i := by
    intro n m hn hm
    rw [T.hdeps] at hm
    exact dep_item_ne (d := setLoaded d i v) hU hR (tgtKinds_setLoaded hT) hC hon htg (hne n hn)
      (List.mem_filter.1 hm).1
  refine legal_of_sub (fun n => ?_) (fun n hn => sameCalc_h1 T (sameCalc_setLoaded hon (hne n hn)))
    (fun n m hn hm hKm => ?_)
    (fun n m hn hm => static_h3 hst hst' (fun x hx => typeOf?_setLoaded (by rw [item?_id hx]; exact hdep n m hn hm)))
  · rw [hK']; by_cases h : n.1 = i
    · exact Or.inl (if_pos h)
    · exact Or.inr (if_neg h)
  · rw [hK', if_neg (hdep n m hn hm)]; exact hKm

theorem tgtKinds_apply {i : Nat} {e0 : Int} {ts ts' : List Nat} (hT : TgtKinds cfg d) (hsub : ∀ j ∈ ts', j ∈ ts)
    (hts : ∀ j ∈ ts, ∀ t, item? cfg j = some t → t.kind.isSolsys = true) :
    TgtKinds cfg (setTgts d i e0 (d.tgts i e0 ++ ts')) := by
  intro a e t ht
  obtain ⟨j, hj, hjt⟩ := mem_targetsOf.1 ht
  simp only [setTgts] at hj
  split at hj
  · rename_i hc
    rcases List.mem_append.1 hj with hj | hj
    · exact hT a e t (mem_targetsOf.2 ⟨j, by rw [hc.1, hc.2]; exact hj, hjt⟩)
    · exact hts j (hsub j hj) t hjt
  · exact hT a e t (mem_targetsOf.2 ⟨j, hj, hjt⟩)

theorem tgtKinds_unapply {i : Nat} {e0 : Int} {ts : List Nat} (hT : TgtKinds cfg d) :
    TgtKinds cfg (setTgts d i e0 ((d.tgts i e0).filter fun t => !ts.contains t)) := by
  intro a e t ht
  obtain ⟨j, hj, hjt⟩ := mem_targetsOf.1 ht
  simp only [setTgts] at hj
  split at hj
  · rename_i hc
    exact hT a e t (mem_targetsOf.2 ⟨j, by rw [hc.1, hc.2]; exact (List.mem_filter.1 hj).1, hjt⟩)
  · exact hT a e t (mem_targetsOf.2 ⟨j, hj, hjt⟩)

/-! ## Every message-level step is a legal machine step -/

/-- Invariant of a message-level state: the cache is coherent and dependency-closed w.r.t. the graph of the
current registers (`Machine.Good`), item ids are unique, charges sit in modules of their own fit, recorded
projection targets are solar-system items. -/
structure MInv (W : Config × Dyn → Graph Node Rat) (s : MState) : Prop where
  good : Good W (toState s)
  uniq : UniqueIds s.cfg
  charge : ChargeWF s.cfg
  tgts : TgtKinds s.cfg s.dyn

/-- Side conditions under which a message-level step is taken.
* `load i`: nothing of `i` is cached, none of its effects runs (`ItemLoaded` precedes `EffectsStarted`), and
  — K1 — `i` is not a recorded projection target: the handlers do not revise a projection when its target
  is loaded afterwards (and a loaded ship becomes the carrier whose resistance attribute is read).
* `unload i`: none of its effects runs (`EffectsStopped` precedes `ItemUnloaded`) and — K1 — `i` is not a
  recorded projection target.
* `start i es` / `stop i es`: the projectors `(i, e)`, `e ∈ es`, have no recorded targets (`EffectApplied`
  comes after `EffectsStarted`, `EffectUnapplied` before `EffectsStopped`).  That `i` is configured and
  loaded and that `es` are effects of its type which are off / on is *not* needed: switching an effect that is
  not there changes nothing, re-starting a running one only invalidates more.
* `apply i e ts`: the new targets are solar-system items (keeps `TgtKinds`); nothing else is needed
  (an effect that does not run or is not projectable contributes no specs).
* `unapply`, `changed`, `read` (a no-op of `mstep`): none.
* `buffset i e ms`: the projector `(i, e)` has no recorded targets (the service un-applies a boost before it
  rebuilds or drops its warfare-buff modifiers, and re-applies it afterwards); nothing about `ms` is needed
  (`projMods` ignores payload that is not `bspecOK`).
* `reconfig cfg'`: the new configuration is well-formed and the change is invisible to the cached nodes —
  their dependencies and evaluation, and the presence of their dependencies' values, are the same
  (placing / removing unloaded items, changing fields nobody reads). -/
def StepOK (W : Config × Dyn → Graph Node Rat) (s : MState) : MStep → Prop
  | .read _ => True
  | .load i => (∀ n, s.cache n ≠ none → n.1 ≠ i) ∧ (∀ e, s.dyn.on i e = false) ∧ (∀ a e, i ∉ s.dyn.tgts a e)
  | .unload i => (∀ e, s.dyn.on i e = false) ∧ (∀ a e, i ∉ s.dyn.tgts a e)
  | .start i es => ∀ e ∈ es, s.dyn.tgts i e = []
  | .stop i es => ∀ e ∈ es, s.dyn.tgts i e = []
  | .apply _ _ ts => ∀ j ∈ ts, ∀ t, item? s.cfg j = some t → t.kind.isSolsys = true
  | .unapply _ _ _ => True
  | .changed _ _ => True
  | .buffset i e _ => s.dyn.tgts i e = []
  | .reconfig cfg' => UniqueIds cfg' ∧ ChargeWF cfg' ∧ TgtKinds cfg' s.dyn ∧
      ∀ n, s.cache n ≠ none →
        (W (cfg', s.dyn)).deps n = (W (s.cfg, s.dyn)).deps n ∧
        (∀ f, (W (cfg', s.dyn)).eval n f = (W (s.cfg, s.dyn)).eval n f) ∧
        ∀ m ∈ (W (cfg', s.dyn)).deps n, (spec (W (s.cfg, s.dyn)) m = none ↔ spec (W (cfg', s.dyn)) m = none)

/-- Steps whose legality needs `StaticAt` before and after (the others leave the graph alone or state their
own hypothesis). -/
def usesStatic : MStep → Bool
  | .read _ | .changed _ _ | .buffset _ _ _ | .reconfig _ => false
  | _ => true

/-- `StaticAt` before and after the step, where the step needs it. -/
def StaticAround (u : Universe) (W : Config × Dyn → Graph Node Rat) (s : MState) (st : MStep) : Prop :=
  usesStatic st = true →
    StaticAt u W s.cfg s.dyn ∧ StaticAt u W (mstep u s st).cfg (mstep u s st).dyn

/-- The cache-relevant content of a step: new registers and removed entries as a `.change` of the machine. -/
def asChange (u : Universe) (s : MState) (st : MStep) : Step (Config × Dyn) Node Rat :=
  .change ((mstep u s st).cfg, (mstep u s st).dyn) (removed s.cache (mstep u s st).cache)

/-- **Every message-level step is a legal step of the abstract cache machine**, and what it does to the
cache is exactly the removal of `removed`. -/
theorem mstep_legal (T : Ties u immune limited pen keep W) (hwf : RankWF u) (hun : UniqueAttrs u)
    (hR : ResistWF u) {s : MState} (inv : MInv W s) (st : MStep) (ok : StepOK W s st)
    (hsa : StaticAround u W s st) :
    Legal W (toState s) (asChange u s st) ∧
    (mstep u s st).cache = restrict s.cache (removed s.cache (mstep u s st).cache) := by
  have hg : Inv (W (s.cfg, s.dyn)) s.cache := inv.good
  have hst := fun h => (hsa h).1
  have hst' := fun h => (hsa h).2
  cases st with
  | read S =>
    exact legal_of_sub (Cascade.Sub.refl _) (fun n _ => ⟨rfl, fun _ => rfl⟩) (fun _ _ _ _ h => h)
      (fun _ _ _ _ => Iff.rfl)
  | load i =>
    refine legal_setLoaded (v := true) T hR inv.uniq inv.charge inv.tgts ok.2.1 ok.2.2 (hst rfl) (hst' rfl) (fun n => ?_)
    show s.cache n = _
    by_cases h : n.1 = i
    · rw [if_pos h]
      cases hk : s.cache n with
      | none => rfl
      | some v => exact absurd h (ok.1 n (by rw [hk]; exact Option.some_ne_none v))
    · rw [if_neg h]
  | unload i =>
    exact legal_setLoaded (v := false) T hR inv.uniq inv.charge inv.tgts ok.1 ok.2 (hst rfl) (hst' rfl) (fun n => rfl)
  | start i es =>
    exact legal_visitAll T hwf hun hR _ hg inv.uniq inv.charge (d' := setOn s.dyn i es true) inv.tgts rfl (hst rfl) (hst' rfl)
      (fun n hn => sameCalc_setOn inv.uniq ok (setOn s.dyn i es true) rfl
        (fun e he _ => by simp [setOn, he]) hn)
  | stop i es =>
    exact legal_visitAll T hwf hun hR _ hg inv.uniq inv.charge (d' := setOn s.dyn i es false) inv.tgts rfl (hst rfl) (hst' rfl)
      (fun n hn => sameCalc_setOn inv.uniq ok s.dyn rfl
        (fun e he hne => by
          have : (setOn s.dyn i es false).on i e = false := by simp [setOn, he]
          rw [this] at hne
          cases h : s.dyn.on i e with
          | true => rfl
          | false => exact absurd h.symm hne) hn)
  | apply i e ts =>
    exact legal_visitAll T hwf hun hR _ hg inv.uniq inv.charge
      (tgtKinds_apply inv.tgts (fun j hj => (List.mem_filter.1 hj).1) ok) rfl (hst rfl) (hst' rfl)
      (fun n hn => sameCalc_apply inv.uniq (fun j hj => (List.mem_filter.1 hj).1) hn)
  | unapply i e ts =>
    exact legal_visitAll T hwf hun hR _ hg inv.uniq inv.charge (tgtKinds_unapply inv.tgts) rfl (hst rfl) (hst' rfl)
      (fun n hn => sameCalc_unapply inv.uniq hn)
  | changed i attr =>
    exact legal_changed T hwf hun hR (i, attr) hg inv.uniq inv.charge inv.tgts
  | buffset i e ms =>
    exact legal_setBspecs T ok
  | reconfig cfg' =>
    obtain ⟨_, _, _, h⟩ := ok
    exact legal_of_sub (Cascade.Sub.refl _) (fun n hn => ⟨(h n hn).1, (h n hn).2.1⟩) (fun _ _ _ _ hm => hm)
      (fun n m hn hm => (h n hn).2.2 m hm)

/-- The invariant is preserved by every step taken under its side conditions. -/
theorem mstep_inv (T : Ties u immune limited pen keep W) (hwf : RankWF u) (hun : UniqueAttrs u)
    (hR : ResistWF u) {s : MState} (inv : MInv W s) (st : MStep) (ok : StepOK W s st)
    (hsa : StaticAround u W s st) :
    MInv W (mstep u s st) := by
  obtain ⟨hl, hc⟩ := mstep_legal T hwf hun hR inv st ok hsa
  have hgood : Good W (toState (mstep u s st)) := by
    have := good_step W (toState s) (asChange u s st) inv.good hl
    unfold asChange at this
    simp only [step, toState] at this
    unfold Good toState
    rw [hc]; exact this
  cases st with
  | read S => exact inv
  | load i => exact ⟨hgood, inv.uniq, inv.charge, inv.tgts⟩
  | unload i => exact ⟨hgood, inv.uniq, inv.charge, inv.tgts⟩
  | start i es => exact ⟨hgood, inv.uniq, inv.charge, inv.tgts⟩
  | stop i es => exact ⟨hgood, inv.uniq, inv.charge, inv.tgts⟩
  | apply i e ts =>
    exact ⟨hgood, inv.uniq, inv.charge, tgtKinds_apply inv.tgts (fun j hj => (List.mem_filter.1 hj).1) ok⟩
  | unapply i e ts => exact ⟨hgood, inv.uniq, inv.charge, tgtKinds_unapply inv.tgts⟩
  | changed i attr => exact ⟨hgood, inv.uniq, inv.charge, inv.tgts⟩
  | buffset i e ms => exact ⟨hgood, inv.uniq, inv.charge, inv.tgts⟩
  | reconfig cfg' => exact ⟨hgood, ok.1, ok.2.1, ok.2.2.1⟩

/-! ## Changing an overridden value (skill level) -/

/-- Side conditions of the transaction "the configuration changes to `cfg'` (a skill's level is set) and
`AttrsValueChanged` is raised for node `(i, attr)`": the new configuration is well-formed, and the change is
invisible to every cached node that does not read `(i, attr)`. -/
def RelevelOK (u : Universe) (W : Config × Dyn → Graph Node Rat) (s : MState) (cfg' : Config) (i : Nat)
    (attr : Int) : Prop :=
  UniqueIds cfg' ∧ ChargeWF cfg' ∧ TgtKinds cfg' s.dyn ∧
    ∀ n, s.cache n ≠ none → (i, attr) ∉ deps u cfg' s.dyn n →
      (W (cfg', s.dyn)).deps n = (W (s.cfg, s.dyn)).deps n ∧
      (∀ f, (W (cfg', s.dyn)).eval n f = (W (s.cfg, s.dyn)).eval n f) ∧
      ∀ m ∈ (W (cfg', s.dyn)).deps n, (spec (W (s.cfg, s.dyn)) m = none ↔ spec (W (cfg', s.dyn)) m = none)

/-- `reconfig cfg'` followed by `changed i attr`, as one state transformer. -/
def relevel (u : Universe) (s : MState) (cfg' : Config) (i : Nat) (attr : Int) : MState :=
  mstep u (mstep u s (.reconfig cfg')) (.changed i attr)

theorem relevel_legal (T : Ties u immune limited pen keep W) (hwf : RankWF u) (hun : UniqueAttrs u)
    (hR : ResistWF u) {s : MState} (inv : MInv W s) {cfg' : Config} {i : Nat} {attr : Int}
    (ok : RelevelOK u W s cfg' i attr) :
    Legal W (toState s) (.change (cfg', s.dyn) (removed s.cache (relevel u s cfg' i attr).cache)) ∧
    (relevel u s cfg' i attr).cache = restrict s.cache (removed s.cache (relevel u s cfg' i attr).cache) := by
  obtain ⟨hU, hC, hT, h⟩ := ok
  have hg : Inv (W (s.cfg, s.dyn)) s.cache := inv.good
  obtain ⟨hsub, hdir, hcl⟩ := casc_contract u cfg' s.dyn hwf hun s.cache
    (fun x hx => hasMeta_of_cached T hg hx) (i, attr)
  have hk : ∀ n, casc u cfg' s.dyn (fuelOf u) s.cache (i, attr) n ≠ none →
      s.cache n ≠ none ∧ (i, attr) ∉ deps u cfg' s.dyn n :=
    fun n hn => ⟨hsub.mono n hn, fun hd => hn (hdir n (coverage hU hR hT hC hd))⟩
  exact legal_of_sub hsub (fun n hn => ⟨(h n (hk n hn).1 (hk n hn).2).1, (h n (hk n hn).1 (hk n hn).2).2.1⟩)
    (closed_h2 T hU hR hT hC hcl) (fun n m hn hm => (h n (hk n hn).1 (hk n hn).2).2.2 m hm)

theorem relevel_inv (T : Ties u immune limited pen keep W) (hwf : RankWF u) (hun : UniqueAttrs u)
    (hR : ResistWF u) {s : MState} (inv : MInv W s) {cfg' : Config} {i : Nat} {attr : Int}
    (ok : RelevelOK u W s cfg' i attr) : MInv W (relevel u s cfg' i attr) := by
  obtain ⟨hl, hc⟩ := relevel_legal T hwf hun hR inv ok
  refine ⟨?_, ok.1, ok.2.1, ok.2.2.1⟩
  have := good_step W (toState s) _ inv.good hl
  simp only [step, toState] at this
  unfold Good toState
  rw [hc]; exact this

/-! ## Histories: public reads, messages, level changes -/

/-- One event in the life of a solar system, at the granularity of the calculator's messages. -/
inductive WStep
  /-- a public read: the (dependency-closed) set `S` of nodes is calculated and stored -/
  | read (S : Node → Bool)
  /-- a message handled by the calculation service -/
  | micro (st : MStep)
  /-- an overridden value changes: new configuration plus `AttrsValueChanged` for the overridden node -/
  | relevel (cfg' : Config) (i : Nat) (attr : Int)

def wstep (u : Universe) (W : Config × Dyn → Graph Node Rat) (s : MState) : WStep → MState
  | .read S => { s with cache := fun n => if S n then spec (W (s.cfg, s.dyn)) n else s.cache n }
  | .micro st => mstep u s st
  | .relevel cfg' i attr => relevel u s cfg' i attr

/-- Side conditions of an event. A read stores a set of nodes closed under (valued) dependencies. -/
def WStepOK (u : Universe) (W : Config × Dyn → Graph Node Rat) (s : MState) : WStep → Prop
  | .read S => Legal W (toState s) (.read S)
  | .micro st => StepOK W s st ∧ StaticAround u W s st
  | .relevel cfg' i attr => RelevelOK u W s cfg' i attr

def wrun (u : Universe) (W : Config × Dyn → Graph Node Rat) (s : MState) : List WStep → MState
  | [] => s
  | st :: rest => wrun u W (wstep u W s st) rest

def WRunOK (u : Universe) (W : Config × Dyn → Graph Node Rat) (s : MState) : List WStep → Prop
  | [] => True
  | st :: rest => WStepOK u W s st ∧ WRunOK u W (wstep u W s st) rest

theorem wstep_inv (T : Ties u immune limited pen keep W) (hwf : RankWF u) (hun : UniqueAttrs u)
    (hR : ResistWF u) {s : MState} (inv : MInv W s) (st : WStep) (ok : WStepOK u W s st) :
    MInv W (wstep u W s st) := by
  cases st with
  | read S => exact ⟨good_step W (toState s) (.read S) inv.good ok, inv.uniq, inv.charge, inv.tgts⟩
  | micro st => exact mstep_inv T hwf hun hR inv st ok.1 ok.2
  | relevel cfg' i attr => exact relevel_inv T hwf hun hR inv ok

theorem wrun_inv (T : Ties u immune limited pen keep W) (hwf : RankWF u) (hun : UniqueAttrs u)
    (hR : ResistWF u) : ∀ (steps : List WStep) {s : MState}, MInv W s → WRunOK u W s steps →
      MInv W (wrun u W s steps)
  | [], _, inv, _ => inv
  | st :: rest, _, inv, ok => wrun_inv T hwf hun hR rest (wstep_inv T hwf hun hR inv st ok.1) ok.2

/-! ## (Re-)registration of a fleet boost -/

theorem filter_not_contains_self (ts : List Nat) : (ts.filter fun t => !ts.contains t) = [] :=
  List.filter_eq_nil_iff.2 (fun t ht => by simp [ht])

/-- What the service does for a running fleet-boost effect `e` of item `i` when the effect starts (nothing is
recorded yet) or one of its buff attributes changes: the effect is un-applied from its recorded targets, its
warfare-buff modifiers are replaced by `ms`, and it is applied to the ships `ts` of the fleet. -/
def rebuff (s : MState) (i : Nat) (e : Int) (ms : List Modifier) (ts : List Nat) : List MStep :=
  [.unapply i e (s.dyn.tgts i e), .buffset i e ms, .apply i e ts]

/-- The state in which the last message of `rebuff` (the `EffectApplied`) is taken. -/
def rebuffMid (u : Universe) (s : MState) (i : Nat) (e : Int) (ms : List Modifier) : MState :=
  mstep u (mstep u s (.unapply i e (s.dyn.tgts i e))) (.buffset i e ms)

/-- The three messages are taken under their side conditions: `buffset` finds no recorded targets because the
`EffectUnapplied` before it removed them all; the only hypotheses are those of the `EffectApplied` (targets
are solar-system items) and non-zero divisors around the un-apply and the apply. -/
theorem rebuff_ok (s : MState) (i : Nat) (e : Int) (ms : List Modifier) (ts : List Nat)
    (hts : ∀ j ∈ ts, ∀ t, item? s.cfg j = some t → t.kind.isSolsys = true)
    (hst1 : StaticAround u W s (.unapply i e (s.dyn.tgts i e)))
    (hst3 : StaticAround u W (rebuffMid u s i e ms) (.apply i e ts)) :
    WRunOK u W s ((rebuff s i e ms ts).map .micro) := by
  refine ⟨⟨trivial, hst1⟩, ⟨?_, fun h => by cases h⟩, ⟨hts, hst3⟩, trivial⟩
  show (if i = i ∧ e = e then (s.dyn.tgts i e).filter (fun t => !(s.dyn.tgts i e).contains t) else _) = []
  rw [if_pos ⟨rfl, rfl⟩]
  exact filter_not_contains_self _

/-- Afterwards the projector `(i, e)` has exactly the new modifiers and targets registered (targets once each),
and the other registers are as before. -/
theorem rebuff_dyn (s : MState) (i : Nat) (e : Int) (ms : List Modifier) (ts : List Nat) :
    (wrun u W s ((rebuff s i e ms ts).map .micro)).cfg = s.cfg ∧
    (wrun u W s ((rebuff s i e ms ts).map .micro)).dyn.loaded = s.dyn.loaded ∧
    (wrun u W s ((rebuff s i e ms ts).map .micro)).dyn.on = s.dyn.on ∧
    (wrun u W s ((rebuff s i e ms ts).map .micro)).dyn.bspecs i e = ms ∧
    (wrun u W s ((rebuff s i e ms ts).map .micro)).dyn.tgts i e = ts ∧
    ∀ j f, ¬ (j = i ∧ f = e) →
      (wrun u W s ((rebuff s i e ms ts).map .micro)).dyn.bspecs j f = s.dyn.bspecs j f ∧
      (wrun u W s ((rebuff s i e ms ts).map .micro)).dyn.tgts j f = s.dyn.tgts j f := by
  have h0 : (s.dyn.tgts i e).filter (fun t => !(s.dyn.tgts i e).contains t) = [] := filter_not_contains_self _
  refine ⟨rfl, rfl, rfl, ?_, ?_, fun j f hc => ⟨?_, ?_⟩⟩
  · show (if i = i ∧ e = e then ms else _) = ms
    rw [if_pos ⟨rfl, rfl⟩]
  · show (if i = i ∧ e = e then
        (if i = i ∧ e = e then (s.dyn.tgts i e).filter (fun t => !(s.dyn.tgts i e).contains t) else _) ++
          ts.filter (fun t => !(if i = i ∧ e = e then
            (s.dyn.tgts i e).filter (fun t => !(s.dyn.tgts i e).contains t) else _).contains t)
      else _) = _
    simp only [h0]
    simp
  · show (if j = i ∧ f = e then ms else _) = _
    rw [if_neg hc]; rfl
  · show (if j = i ∧ f = e then _ else (if j = i ∧ f = e then _ else s.dyn.tgts j f)) = _
    rw [if_neg hc, if_neg hc]

/-- ... and the invariant holds again: every read returns the from-scratch value of the new registers. -/
theorem rebuff_inv (T : Ties u immune limited pen keep W) (hwf : RankWF u) (hun : UniqueAttrs u)
    (hR : ResistWF u) {s : MState} (inv : MInv W s) (i : Nat) (e : Int) (ms : List Modifier) (ts : List Nat)
    (hts : ∀ j ∈ ts, ∀ t, item? s.cfg j = some t → t.kind.isSolsys = true)
    (hst1 : StaticAround u W s (.unapply i e (s.dyn.tgts i e)))
    (hst3 : StaticAround u W (rebuffMid u s i e ms) (.apply i e ts)) :
    MInv W (wrun u W s ((rebuff s i e ms ts).map .micro)) :=
  wrun_inv T hwf hun hR _ inv (rebuff_ok s i e ms ts hts hst1 hst3)

end legal

/-! ## A tiny universe for non-vacuity examples -/

/-- One ship (type 10) whose effect 100 adds attribute 1 of the ship to its attribute 2. -/
def tinyU : Universe where
  attrs := [⟨1, none, none, true, true⟩, ⟨2, none, none, true, true⟩]
  effects := [⟨100, 0, none, none, false, [⟨1, 1, none, 2, 2, 0, none, 1⟩]⟩]
  types := [⟨10, none, none, none, [(1, 5), (2, 7)], [100], []⟩]

def tinyS : MState where
  cfg := { hasSource := true, items := [⟨0, .ship, 10, 0, 1, none, none, none, []⟩] }
  dyn := { loaded := fun i => i == 0, on := fun _ _ => false, tgts := fun _ _ => [] }
  cache := fun _ => none

end Eos.Micro.L
