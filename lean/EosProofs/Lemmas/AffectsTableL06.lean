import EosGen.AffectsTableL06
/-! C02: on every case of the regenerated local "which items does the modifier select" table whose affector
class has number 06 (`Eos.World.Kind.ofNat?`), the specification's `affectsLocal` gives the answer the real code
gave; the block has exactly the generated number of cases, of "modified" cases and of cases with a valid modifier (kernel evaluation; one file
per affector class so the checks run in parallel). -/
namespace Eos.C02
open Eos.AffectsSpec EosGen.AffectsTable

theorem affects_blockL06_ok : localBlockOk blockL06 blockL06Cases blockL06Modified blockL06Valid = true := by decide +kernel

end Eos.C02
