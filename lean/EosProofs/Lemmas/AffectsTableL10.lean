import EosGen.AffectsTableL10
/-! C02: on every case of the regenerated local "which items does the modifier select" table whose affector
class has number 10 (`Eos.World.Kind.ofNat?`), the specification's `affectsLocal` gives the answer the real code
gave; the block has exactly the generated number of cases, of "modified" cases and of cases with a valid modifier (kernel evaluation; one file
per affector class so the checks run in parallel). -/
namespace Eos.C02
open Eos.AffectsSpec EosGen.AffectsTable

theorem affects_blockL10_ok : localBlockOk blockL10 blockL10Cases blockL10Modified blockL10Valid = true := by decide +kernel

end Eos.C02
