import EosModel.ModInfo
import EosGen.ModInfoTable
/-! C19 helper: the irregular rows of the generated per-entry table equal the specification. -/
namespace Eos.ModInfo

theorem rows_ok : rowsOk EosGen.ModInfoTable.rows = true := by decide +kernel

end Eos.ModInfo
