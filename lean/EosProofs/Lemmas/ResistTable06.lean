import EosGen.ResistTable06
/-! C02: on every case of the regenerated resistance table whose projector class has number 06
(`Eos.World.Kind.ofNat?`), the specification's `affectsProjected` + `resistOf` and the whole `gather` give the
selection and the resistance factor the real code applied (both observations); the block has exactly the
generated number of cases, of "modified" cases and of cases with a valid modifier (kernel evaluation). -/
namespace Eos.C02
open Eos.AffectsSpec EosGen.ResistTable

theorem resist_block06_ok : resistBlockOk blockR06 blockR06Cases blockR06Modified blockR06Valid = true := by
  decide +kernel

end Eos.C02
