import EosModel.Stats
import EosGen.StatFormulas
import EosProofs.Lemmas.Toggle
import Mathlib.Tactic.Ring
import Mathlib.Tactic.Linarith
import Mathlib.Algebra.Order.Field.Rat
/-! Helper definitions and lemmas for the C04 theorems (statistics). -/
namespace Eos.C04
open Eos.Stats Eos.Cycle Eos.Toggle
namespace G
export EosGen.StatFormulas (resist resistDefault tankEff tankDealt tankReceived layerEhp layerWorstEhp worstDivisor
  statScale combineInit combineStep combineResist infoAvg infoTime infoQty seqAvg dpsMult rps durationS inactiveS
  reloadS cycleTable)
end G

/-- Valid ranges of the quantifier: damage profile entries non-negative, resists within [0, 1]. -/
structure Valid (p r : D4) : Prop where
  p_em : 0 ≤ p.em
  p_th : 0 ≤ p.th
  p_ki : 0 ≤ p.ki
  p_ex : 0 ≤ p.ex
  r_em : 0 ≤ r.em ∧ r.em ≤ 1
  r_th : 0 ≤ r.th ∧ r.th ≤ 1
  r_ki : 0 ≤ r.ki ∧ r.ki ≤ 1
  r_ex : 0 ≤ r.ex ∧ r.ex ≤ 1

theorem minResist_le (r : D4) : minResist r ≤ r.em ∧ minResist r ≤ r.th ∧ minResist r ≤ r.ki ∧ minResist r ≤ r.ex := by
  unfold minResist
  refine ⟨?_, ?_, ?_, ?_⟩
  · exact le_trans (min_le_left _ _) (le_trans (min_le_left _ _) (min_le_left _ _))
  · exact le_trans (min_le_left _ _) (le_trans (min_le_left _ _) (min_le_right _ _))
  · exact le_trans (min_le_left _ _) (min_le_right _ _)
  · exact min_le_right _ _

def tup (d : D4) : ℚ × ℚ × ℚ × ℚ := (d.em, d.th, d.ki, d.ex)

/-- `DmgStats._combine`'s loop, run with the generated initial value and loop body. -/
def genSum (l : List D4) : ℚ × ℚ × ℚ × ℚ :=
  l.foldl (fun acc c => G.combineStep acc.1 acc.2.1 acc.2.2.1 acc.2.2.2 c.em c.th c.ki c.ex) G.combineInit

theorem foldl_add (l : List D4) (a : D4) : l.foldl D4.add a = a.add (l.foldl D4.add D4.zero) := by
  induction l generalizing a with
  | nil => simp [D4.add, D4.zero]
  | cons x t ih =>
    simp only [List.foldl_cons]
    rw [ih (a.add x), ih (D4.zero.add x)]
    simp only [D4.add, D4.zero]; congr 1 <;> ring

theorem sum_cons (x : D4) (t : List D4) : D4.sum (x :: t) = x.add (D4.sum t) := by
  unfold D4.sum; simp only [List.foldl_cons]; rw [foldl_add]; simp [D4.add, D4.zero]

/-- Sums over any partition of any list by any predicate add up (per damage type). -/
theorem sum_partition {α} (l : List α) (v : α → D4) (q : α → Bool) :
    (D4.sum ((l.filter q).map v)).add (D4.sum ((l.filter (fun x => !q x)).map v)) = D4.sum (l.map v) := by
  induction l with
  | nil => simp [D4.sum, D4.add, D4.zero]
  | cons x t ih =>
    cases hq : q x <;> simp only [List.filter_cons, hq, List.map_cons, sum_cons, Bool.not_false, Bool.not_true,
      if_true, if_false, Bool.false_eq_true] <;> rw [← ih] <;> simp only [D4.add] <;> congr 1 <;> ring

theorem mapM_ok {α β} (l : List α) (g : α → R β) (v : α → β) (H : ∀ x ∈ l, g x = .ok (v x)) :
    l.mapM g = .ok (l.map v) := by
  induction l with
  | nil => rfl
  | cons x t ih =>
    rw [List.mapM_cons, H x (List.mem_cons_self), ih (fun y hy => H y (List.mem_cons_of_mem _ hy))]
    rfl

theorem mkStats_ok {v w : D4} (h : mkStats v none = .ok w) : w = v := by
  unfold mkStats at h; simp only at h; split at h <;> simp_all

/-- Aggregation `combine (mapM g (filter f items)) none` is additive over partitions by any `q`. -/
theorem agg_additive (items : List Item) (g : Item → R D4) (v : Item → D4) (H : ∀ it ∈ items, g it = .ok (v it))
    (f q : Item → Bool) (w w1 w2 : D4)
    (h : (do combine (← (items.filter f).mapM g) none) = .ok w)
    (h1 : (do combine (← (items.filter (fun it => f it && q it)).mapM g) none) = .ok w1)
    (h2 : (do combine (← (items.filter (fun it => f it && !q it)).mapM g) none) = .ok w2) :
    w1.add w2 = w := by
  have sub : ∀ p : Item → Bool, ∀ it ∈ items.filter p, g it = .ok (v it) := fun p it hm => H it (List.mem_filter.1 hm).1
  rw [mapM_ok _ g v (sub _)] at h h1 h2
  simp only [combine, bind, Except.bind] at h h1 h2
  rw [mkStats_ok h, mkStats_ok h1, mkStats_ok h2]
  have := sum_partition (items.filter f) v q
  simp only [List.filter_filter] at this
  have e1 : (items.filter fun a => q a && f a) = items.filter fun it => f it && q it := by
    congr 1; funext a; exact Bool.and_comm _ _
  have e2 : (items.filter fun a => (!q a) && f a) = items.filter fun it => f it && !q it := by
    congr 1; funext a; exact Bool.and_comm _ _
  rw [e1, e2] at this
  exact this

/-- The effect cannot cycle: `None`, zero or a negative count. -/
def Dead : Option ERat → Prop
  | none => True
  | some (.fin c) => c ≤ 0
  | some .inf => False

/-- What a register ought to hold in micro-configuration `cur`: items whose watched point is on and which
    satisfied the guard when it went on. -/
def truth (r : RegSpec) (cur : Nat → Option Facts) : Nat → Option Unit :=
  fun i => (cur i).bind fun f => if r.guard f then some () else none

theorem truth_step (r : RegSpec) (cur : Nat → Option Facts) (m : Msg) :
    applyCur (truth r cur) (r.ev m) = truth r (microStep r.point cur m) := by
  unfold RegSpec.ev microStep
  by_cases hp : m.points.contains r.point = true
  · simp only [hp, if_true]
    by_cases ho : m.on = true
    · simp only [ho, if_true, applyCur]
      funext j; unfold truth upd
      by_cases hj : j = m.item <;> simp [hj]
    · simp only [ho, applyCur]
      funext j; unfold truth upd
      by_cases hj : j = m.item <;> simp [hj]
  · simp only [hp, applyCur]; rfl

theorem register_inv (r : RegSpec) (ms : List Msg) (cur : Nat → Option Facts) (reg : Reg Unit)
    (hi : Inv (truth r cur) reg) (ha : Alternates r.point cur ms) :
    Inv (truth r (ms.foldl (microStep r.point) cur)) (run reg (ms.map r.ev)) := by
  induction ms generalizing cur reg with
  | nil => exact hi
  | cons m t ih =>
    simp only [List.foldl_cons, List.map_cons, run]
    apply ih
    · rw [← truth_step]
      apply step_inv _ hi
      unfold RegSpec.ev
      by_cases hp : m.points.contains r.point = true
      · rw [if_pos hp]
        by_cases ho : m.on = true
        · rw [if_pos ho]
          show truth r cur m.item = none
          simp [truth, ha.1 hp ho]
        · rw [if_neg ho]; trivial
      · rw [if_neg hp]; trivial
    · exact ha.2
end Eos.C04
