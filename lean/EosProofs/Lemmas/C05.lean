import EosModel.EffectStatus
/-! Helper lemmas for property C05 (effect status): glue for the part-wise table checks and the
invariant of the item state machine. -/
namespace Eos.C05
open Eos.EffectStatus

/-! ### Table glue -/

theorem sortedAbove_spec : ∀ (l : List Nat) (lo : Nat), sortedAbove lo l = true →
    (∀ x ∈ l, lo < x ∧ x ≤ lastOr lo l) ∧ l.Pairwise (· < ·) ∧ lo ≤ lastOr lo l := by
  intro l
  induction l with
  | nil => intro lo _; simp [lastOr]
  | cons x xs ih =>
    intro lo h
    simp only [sortedAbove, Bool.and_eq_true, decide_eq_true_eq] at h
    obtain ⟨h1, h2, h3⟩ := ih x h.2
    refine ⟨?_, ?_, ?_⟩
    · intro y hy
      rcases List.mem_cons.1 hy with rfl | hy
      · exact ⟨h.1, h3⟩
      · exact ⟨Nat.lt_trans h.1 (h1 y hy).1, (h1 y hy).2⟩
    · exact List.pairwise_cons.2 ⟨fun y hy => (h1 y hy).1, h2⟩
    · exact Nat.le_trans (Nat.le_of_lt h.1) h3

theorem chainParts_spec : ∀ (ps : List (List Nat)) (lo : Nat), chainParts lo ps = true →
    (∀ x ∈ ps.flatten, lo < x) ∧ ps.flatten.Pairwise (· < ·) := by
  intro ps
  induction ps with
  | nil => intro lo _; simp
  | cons p ps ih =>
    intro lo h
    simp only [chainParts, Bool.and_eq_true] at h
    obtain ⟨a1, a2, a3⟩ := sortedAbove_spec p lo h.1
    obtain ⟨b1, b2⟩ := ih _ h.2
    simp only [List.flatten_cons]
    refine ⟨?_, List.pairwise_append.2 ⟨a2, b2, ?_⟩⟩
    · intro x hx
      rcases List.mem_append.1 hx with hx | hx
      · exact (a1 x hx).1
      · exact Nat.lt_of_le_of_lt a3 (b1 x hx)
    · intro a ha b hb
      exact Nat.lt_of_le_of_lt (a1 a ha).2 (b1 b hb)

theorem rowsOk_spec : ∀ (rows : List Nat) (keys : List Key), rowsOk rows keys = true →
    rows.length = keys.length ∧ ∀ p ∈ rows.zip keys, rowOk p.1 p.2 = true := by
  intro rows
  induction rows with
  | nil => intro keys h; cases keys <;> simp_all [rowsOk]
  | cons r rs ih =>
    intro keys h
    cases keys with
    | nil => simp [rowsOk] at h
    | cons k ks =>
      simp only [rowsOk, Bool.and_eq_true] at h
      obtain ⟨h1, h2⟩ := ih ks h.2
      refine ⟨by simp [h1], ?_⟩
      intro p hp
      rcases List.mem_cons.1 (by simpa using hp) with rfl | hp
      · exact h.1
      · exact h2 p hp

theorem partsOk_spec : ∀ (ps : List (List Nat)) (ks : List (List Key)), partsOk ps ks = true →
    ps.flatten.length = ks.flatten.length ∧ ∀ p ∈ ps.flatten.zip ks.flatten, rowOk p.1 p.2 = true := by
  intro ps
  induction ps with
  | nil => intro ks h; cases ks <;> simp_all [partsOk]
  | cons p ps ih =>
    intro ks h
    cases ks with
    | nil => simp [partsOk] at h
    | cons k ks =>
      simp only [partsOk, Bool.and_eq_true] at h
      obtain ⟨a1, a2⟩ := rowsOk_spec p k h.1
      obtain ⟨b1, b2⟩ := ih ks h.2
      simp only [List.flatten_cons]
      refine ⟨by simp [a1, b1], ?_⟩
      intro q hq
      rw [List.zip_append a1] at hq
      rcases List.mem_append.1 hq with hq | hq
      · exact a2 q hq
      · exact b2 q hq

theorem rowsOk_map : ∀ (rows : List Nat) (keys : List Key), rowsOk rows keys = true →
    rows.map (· / 10) = keys.map Key.pack := by
  intro rows
  induction rows with
  | nil => intro keys h; cases keys <;> simp_all [rowsOk]
  | cons r rs ih =>
    intro keys h
    cases keys with
    | nil => simp [rowsOk] at h
    | cons k ks =>
      simp only [rowsOk, rowOk, Bool.and_eq_true, beq_iff_eq] at h
      simp [h.1.1, ih ks h.2]

theorem partsOk_map : ∀ (ps : List (List Nat)) (ks : List (List Key)), partsOk ps ks = true →
    ps.flatten.map (· / 10) = ks.flatten.map Key.pack := by
  intro ps
  induction ps with
  | nil => intro ks h; cases ks <;> simp_all [partsOk]
  | cons p ps ih =>
    intro ks h
    cases ks with
    | nil => simp [partsOk] at h
    | cons k ks =>
      simp only [partsOk, Bool.and_eq_true] at h
      simp [rowsOk_map p k h.1, ih ks h.2]

theorem partsOk_append : ∀ (a : List (List Nat)) (b : List (List Key)) (c : List (List Nat)) (d : List (List Key)),
    partsOk a b = true → partsOk c d = true → partsOk (a ++ c) (b ++ d) = true := by
  intro a
  induction a with
  | nil => intro b c d h1 h2; cases b <;> simp_all [partsOk]
  | cons x xs ih =>
    intro b c d h1 h2
    cases b with
    | nil => simp [partsOk] at h1
    | cons y ys =>
      simp only [partsOk, Bool.and_eq_true, List.cons_append] at h1 ⊢
      exact ⟨h1.1, ih ys c d h1.2 h2⟩

/-! ### Run-mode overrides -/

theorem find_filter_ne (modes : List (Nat × Nat)) (e x : Nat) (h : x ≠ e) :
    (modes.filter (·.1 != e)).find? (·.1 == x) = modes.find? (·.1 == x) := by
  induction modes with
  | nil => rfl
  | cons p ps ih =>
    by_cases hp : p.1 = e
    · have h1 : (p.1 != e) = false := by simp [hp]
      have h2 : (p.1 == x) = false := by
        simp only [beq_eq_false_iff_ne, hp]; exact fun hh => h hh.symm
      rw [List.filter_cons, List.find?_cons]
      simp only [h1, h2]
      exact ih
    · have h1 : (p.1 != e) = true := by simp [hp]
      rw [List.filter_cons]
      simp only [h1, if_true, List.find?_cons, ih]

theorem getMode_filter_ne (modes : List (Nat × Nat)) (e x : Nat) (h : x ≠ e) :
    getMode (modes.filter (·.1 != e)) x = getMode modes x := by
  unfold getMode
  rw [find_filter_ne modes e x h]

theorem getMode_filter_self (modes : List (Nat × Nat)) (e : Nat) :
    getMode (modes.filter (·.1 != e)) e = defaultMode := by
  unfold getMode
  have : (modes.filter (·.1 != e)).find? (·.1 == e) = none := by
    simp [List.find?_eq_none]
  rw [this]

/-- Reading back after `_set_effects_modes` with distinct effect ids: the mode that was set, else the old one. -/
theorem getMode_setModes : ∀ (ms : List (Nat × Nat)) (modes : List (Nat × Nat)) (x : Nat),
    (ms.map (·.1)).Nodup →
    getMode (setModes modes ms) x = (match ms.find? (·.1 == x) with | some p => p.2 | none => getMode modes x) := by
  intro ms
  induction ms with
  | nil => intro modes x _; simp [setModes]
  | cons p ps ih =>
    intro modes x hn
    obtain ⟨e, m⟩ := p
    simp only [List.map_cons, List.nodup_cons] at hn
    simp only [setModes]
    rw [ih _ x hn.2]
    by_cases hx : e = x
    · subst hx
      have hnone : ps.find? (·.1 == e) = none := by
        simp only [List.find?_eq_none]
        intro q hq hqe
        exact hn.1 (List.mem_map.2 ⟨q, hq, by simpa using hqe⟩)
      simp only [hnone, List.find?, beq_self_eq_true]
      by_cases hm : m = defaultMode
      · simp [hm, getMode_filter_self]
      · have : (m == defaultMode) = false := by simpa using hm
        simp [this, getMode]
    · have hne : (e == x) = false := by simpa using hx
      simp only [List.find?, hne]
      cases ps.find? (·.1 == x) with
      | some q => rfl
      | none =>
        have hx' : x ≠ e := fun h => hx h.symm
        by_cases hm : m = defaultMode
        · simp [hm, getMode_filter_ne _ _ _ hx']
        · have : (m == defaultMode) = false := by simpa using hm
          simp only [this]
          have : getMode ((e, m) :: modes.filter (·.1 != e)) x = getMode (modes.filter (·.1 != e)) x := by
            simp [getMode, List.find?, hne]
          simp [this, getMode_filter_ne _ _ _ hx']

/-! ### One item -/

theorem find_of_mem {t : TypeDef} (hwf : t.WF) {ed : EffectDef} (h : ed ∈ t.effects) :
    t.effects.find? (·.id == ed.id) = some ed := by
  have hn := hwf.1
  generalize t.effects = l at h hn
  induction l with
  | nil => cases h
  | cons a as ih =>
    simp only [List.map_cons, List.nodup_cons] at hn
    rcases List.mem_cons.1 h with rfl | h
    · simp [List.find?]
    · have : a.id ≠ ed.id := fun hh => hn.1 (hh ▸ List.mem_map.2 ⟨ed, h, rfl⟩)
      have hb : (a.id == ed.id) = false := by simpa using this
      simp only [List.find?, hb]
      exact ih h hn.2

theorem resolve_nodup {c : Core} (st : State) (hwf : ∀ t, c.type = some t → t.WF) : (c.resolve st).Nodup := by
  unfold Core.resolve
  cases ht : c.type with
  | none => simp
  | some t => exact ((hwf t ht).1.sublist (List.Sublist.map _ List.filter_sublist))

theorem mem_resolve {c : Core} {t : TypeDef} (ht : c.type = some t) (st : State) (e : Nat) :
    e ∈ c.resolve st ↔ ∃ ed ∈ t.effects, ed.id = e ∧ t.status c.modes st ed = true := by
  simp only [Core.resolve, ht, List.mem_map, List.mem_filter]
  constructor
  · rintro ⟨ed, ⟨h1, h2⟩, rfl⟩; exact ⟨ed, h1, rfl, h2⟩
  · rintro ⟨ed, h1, rfl, h2⟩; exact ⟨ed, ⟨h1, h2⟩, rfl⟩

theorem resolve_unloaded {c : Core} (h : c.type = none) (st : State) : c.resolve st = [] := by
  simp [Core.resolve, h]

theorem good_unloaded {c : Core} (h : c.type = none) (hr : c.running = []) (st : State) : c.Good st := by
  simp [Core.Good, resolve_unloaded h, hr]

theorem good_running_nil {c : Core} {st : State} (g : c.Good st) (h : c.type = none) : c.running = [] := by
  apply List.eq_nil_iff_forall_not_mem.2
  intro e he
  have := (g.1 e).1 he
  simp [resolve_unloaded h] at this

theorem mem_startIds (c : Core) (st : State) (e : Nat) :
    e ∈ c.startIds st ↔ e ∈ c.resolve st ∧ e ∉ c.running := by
  simp [Core.startIds]

theorem mem_stopIds (c : Core) (st : State) (e : Nat) :
    e ∈ c.stopIds st ↔ e ∈ c.running ∧ e ∉ c.resolve st := by
  simp [Core.stopIds]

theorem update_fields (c : Core) (st : State) :
    (c.update st).type = c.type ∧ (c.update st).modes = c.modes ∧ (c.update st).typeId = c.typeId := by
  simp [Core.update]

theorem resolve_update (c : Core) (st st' : State) : (c.update st).resolve st' = c.resolve st' := by
  simp [Core.resolve, Core.update]

theorem mem_update_running (c : Core) (st : State) (e : Nat) :
    e ∈ (c.update st).running ↔ e ∈ c.resolve st := by
  simp only [Core.update, List.mem_filter, List.mem_append, mem_startIds, Bool.not_eq_true',
    List.contains_eq_mem, decide_eq_false_iff_not, mem_stopIds]
  constructor
  · rintro ⟨h | h, hn⟩
    · exact Classical.byContradiction fun hc => hn ⟨h, hc⟩
    · exact h.1
  · intro h
    refine ⟨?_, fun hh => hh.2 h⟩
    by_cases hr : e ∈ c.running
    · exact Or.inl hr
    · exact Or.inr ⟨h, hr⟩

/-- `get_effects_status_update_msgs` re-establishes "running = decision". -/
theorem update_good (c : Core) (st : State) (hn : c.running.Nodup) (hwf : ∀ t, c.type = some t → t.WF) :
    (c.update st).Good st := by
  refine ⟨fun e => by rw [mem_update_running, resolve_update], ?_⟩
  simp only [Core.update]
  refine List.Nodup.sublist List.filter_sublist ?_
  apply List.nodup_append.2
  refine ⟨hn, List.Nodup.sublist List.filter_sublist (resolve_nodup st hwf), ?_⟩
  intro a ha b hb hab
  subst hab
  exact ((mem_startIds c st a).1 hb).2 ha

theorem unload_fields (c : Core) :
    c.unload.type = none ∧ c.unload.modes = c.modes ∧ c.unload.typeId = c.typeId := by
  unfold Core.unload
  cases h : c.type <;> simp [h]

theorem unload_running (c : Core) (h : c.type = none → c.running = []) : c.unload.running = [] := by
  unfold Core.unload
  cases ht : c.type with
  | none => simpa using h ht
  | some t => simp

theorem load_inv (c : Core) (t? : Option TypeDef) (st : State) (h0 : c.type = none) (hr : c.running = [])
    (hwf : ∀ t, t? = some t → t.WF) :
    (c.load t? st).type = t? ∧ (c.load t? st).Good st ∧ (c.load t? st).typeId = c.typeId := by
  cases t? with
  | none => exact ⟨h0, good_unloaded h0 hr st, rfl⟩
  | some t =>
    simp only [Core.load]
    refine ⟨by simp [Core.update], ?_, by simp [Core.update]⟩
    apply update_good
    · simp [hr]
    · intro t' ht'; simp at ht'; exact ht' ▸ hwf t rfl

theorem setModes_inv (c : Core) (ms : List (Nat × Nat)) (onFit : Bool) (st : State) (g : c.Good st)
    (hwf : ∀ t, c.type = some t → t.WF) (hoff : onFit = false → c.type = none) :
    (c.setModes ms onFit st).Good st ∧ (c.setModes ms onFit st).type = c.type ∧
    (c.setModes ms onFit st).typeId = c.typeId := by
  unfold Core.setModes
  cases onFit with
  | true =>
    simp only [if_true]
    exact ⟨update_good _ st g.2 hwf, by simp [Core.update], by simp [Core.update]⟩
  | false =>
    have ht := hoff rfl
    exact ⟨good_unloaded (by simpa using ht) (by simpa using good_running_nil g ht) st, rfl, rfl⟩

theorem stateChanged_inv (c : Core) (st0 st : State) (g : c.Good st0) (hwf : ∀ t, c.type = some t → t.WF) :
    (c.stateChanged st).Good st ∧ (c.stateChanged st).type = c.type ∧ (c.stateChanged st).typeId = c.typeId := by
  unfold Core.stateChanged
  cases ht : c.type with
  | none => simp only [Option.isSome_none]; exact ⟨good_unloaded ht (good_running_nil g ht) st, ht, rfl⟩
  | some t =>
    simp only [Option.isSome_some, if_true]
    exact ⟨update_good _ st g.2 hwf, by simp [Core.update, ht], by simp [Core.update]⟩

/-! ### Items of a world -/

theorem srcWF_of_mem {sources : List Source} (hw : ∀ s ∈ sources, ∀ p ∈ s, p.2.WF) (k : Option Nat) (att : Bool) :
    SrcWF (if att then k.bind fun k => sources[k]? else none) := by
  intro tid t ht
  cases att with
  | false => simp [Source.type?] at ht
  | true =>
    cases k with
    | none => simp [Source.type?] at ht
    | some k =>
      simp only [if_true, Option.bind_some] at ht
      cases hk : sources[k]? with
      | none => simp [hk, Source.type?] at ht
      | some l =>
        simp only [hk, Source.type?, Option.map_eq_some_iff] at ht
        obtain ⟨p, hp, rfl⟩ := ht
        exact hw l (List.mem_of_getElem? hk) p (List.mem_of_find?_eq_some hp)

theorem core_wf {src : Option Source} {onFit : Bool} {c : Core} (hs : SrcWF src)
    (ht : c.type = if onFit then Source.type? src c.typeId else none) : ∀ t, c.type = some t → t.WF := by
  intro t h
  rw [ht] at h
  cases onFit with
  | false => simp at h
  | true => exact hs _ _ (by simpa using h)

/-- A core that is (re)loaded from scratch. -/
theorem fresh_load {src : Option Source} (hs : SrcWF src) (c : Core) (st : State)
    (h0 : c.type = none) (hr : c.running = []) :
    (c.load (Source.type? src c.typeId) st).type = Source.type? src (c.load (Source.type? src c.typeId) st).typeId ∧
    (c.load (Source.type? src c.typeId) st).Good st := by
  obtain ⟨a, b, d⟩ := load_inv c (Source.type? src c.typeId) st h0 hr (fun t ht => hs _ _ ht)
  exact ⟨by rw [a, d], b⟩

theorem load_ok {src : Option Source} (hs : SrcWF src) (h : Holder) (ho : h.onFit = true)
    (h0 : h.core.type = none ∧ h.core.running = [])
    (hc : ∀ c, h.charge = some c → c.type = none ∧ c.running = []) : Holder.Ok src (h.load src) := by
  obtain ⟨a, b⟩ := fresh_load hs h.core h.state h0.1 h0.2
  refine ⟨by simpa [Holder.load, ho] using a, by simpa [Holder.load] using b, ?_⟩
  intro c' hc'
  simp only [Holder.load, Option.map_eq_some_iff] at hc'
  obtain ⟨c, hcc, rfl⟩ := hc'
  obtain ⟨a, b⟩ := fresh_load hs c h.state (hc c hcc).1 (hc c hcc).2
  exact ⟨by simpa [Holder.load, ho] using a, by simpa [Holder.load] using b⟩

theorem unload_clean (c : Core) (st : State) (g : c.Good st) : c.unload.type = none ∧ c.unload.running = [] :=
  ⟨(unload_fields c).1, unload_running c (good_running_nil g)⟩

theorem unload_ok_fields {src : Option Source} (h : Holder) (hk : Holder.Ok src h) :
    (h.unload.core.type = none ∧ h.unload.core.running = []) ∧
    ∀ c, h.unload.charge = some c → c.type = none ∧ c.running = [] := by
  refine ⟨unload_clean _ _ hk.2.1, ?_⟩
  intro c' hc'
  simp only [Holder.unload, Option.map_eq_some_iff] at hc'
  obtain ⟨c, hcc, rfl⟩ := hc'
  exact unload_clean _ _ (hk.2.2 c hcc).2

/-- An item that is not on the fit is fine whatever the source is. -/
theorem ok_off_fit {src src' : Option Source} (h : Holder) (ho : h.onFit = false) (hk : Holder.Ok src h) :
    Holder.Ok src' h := by
  simpa [Holder.Ok, ho] using hk

theorem off_fit_clean {src : Option Source} (h : Holder) (ho : h.onFit = false) (hk : Holder.Ok src h) :
    (h.core.type = none ∧ h.core.running = []) ∧ ∀ c, h.charge = some c → c.type = none ∧ c.running = [] := by
  have h1 : h.core.type = none := by simpa [ho] using hk.1
  refine ⟨⟨h1, good_running_nil hk.2.1 h1⟩, ?_⟩
  intro c hc
  have h2 : c.type = none := by simpa [ho] using (hk.2.2 c hc).1
  exact ⟨h2, good_running_nil (hk.2.2 c hc).2 h2⟩

theorem clean_ok {src : Option Source} (h : Holder) (ho : h.onFit = false)
    (h0 : h.core.type = none ∧ h.core.running = [])
    (hc : ∀ c, h.charge = some c → c.type = none ∧ c.running = []) : Holder.Ok src h :=
  ⟨by simp [ho, h0.1], good_unloaded h0.1 h0.2 _, fun c hcc =>
    ⟨by simp [ho, (hc c hcc).1], good_unloaded (hc c hcc).1 (hc c hcc).2 _⟩⟩

theorem setModes_core_ok {src : Option Source} (hs : SrcWF src) (h : Holder) (hk : Holder.Ok src h)
    (ms : List (Nat × Nat)) : Holder.Ok src { h with core := h.core.setModes ms h.onFit h.state } := by
  obtain ⟨a, b, d⟩ := setModes_inv h.core ms h.onFit h.state hk.2.1 (core_wf hs hk.1)
    (fun ho => by simpa [ho] using hk.1)
  exact ⟨by simpa [b, d] using hk.1, a, hk.2.2⟩

/-- Every operation on an item keeps it loaded exactly when reachable and running exactly the decision. -/
theorem apply_ok {src : Option Source} (hs : SrcWF src) (amap : List (Nat × Nat)) (h h' : Holder)
    (hk : Holder.Ok src h) (op : HOp) (he : h.apply src amap op = .ok h') : Holder.Ok src h' := by
  cases op with
  | add =>
    simp only [Holder.apply] at he
    split at he
    · cases he
    · rename_i ho
      cases he
      have hc := off_fit_clean h (by simpa using ho) hk
      exact load_ok hs _ rfl hc.1 hc.2
  | remove =>
    simp only [Holder.apply] at he
    split at he
    · cases he
    · cases he
      have hc := unload_ok_fields h hk
      exact clean_ok _ rfl hc.1 hc.2
  | setState st =>
    simp only [Holder.apply] at he
    split at he
    · cases he
    · split at he
      · cases he; exact hk
      · split at he
        · rename_i ho
          cases he
          obtain ⟨a, b, d⟩ := stateChanged_inv h.core h.state st hk.2.1 (core_wf hs hk.1)
          refine ⟨by simpa [b, d] using hk.1, a, ?_⟩
          intro c' hc'
          simp only [Option.map_eq_some_iff] at hc'
          obtain ⟨c, hcc, rfl⟩ := hc'
          obtain ⟨a, b, d⟩ := stateChanged_inv c h.state st (hk.2.2 c hcc).2 (core_wf hs (hk.2.2 c hcc).1)
          exact ⟨by simpa [b, d] using (hk.2.2 c hcc).1, a⟩
        · rename_i ho
          cases he
          have hc := off_fit_clean h (by simpa using ho) hk
          exact clean_ok _ (by simpa using ho) hc.1 hc.2
  | setModes onCharge ms =>
    cases onCharge with
    | false =>
      simp only [Holder.apply] at he
      cases he
      exact setModes_core_ok hs h hk ms
    | true =>
      simp only [Holder.apply] at he
      split at he
      · cases he
      · cases he
        refine ⟨hk.1, hk.2.1, ?_⟩
        intro c' hc'
        simp only [Holder.onCharge, Option.map_eq_some_iff] at hc'
        obtain ⟨c, hcc, rfl⟩ := hc'
        obtain ⟨a, b, d⟩ := setModes_inv c ms h.onFit h.state (hk.2.2 c hcc).2 (core_wf hs (hk.2.2 c hcc).1)
          (fun ho => by simpa [ho] using (hk.2.2 c hcc).1)
        exact ⟨by simpa [Holder.onCharge, b, d] using (hk.2.2 c hcc).1, a⟩
  | setCharge charge =>
    simp only [Holder.apply] at he
    split at he
    · cases he
    · cases he
      refine ⟨hk.1, hk.2.1, ?_⟩
      intro c' hc'
      cases charge with
      | none => cases ho : h.onFit <;> simp [ho] at hc'
      | some p =>
        cases ho : h.onFit with
        | true =>
          simp only [ho, if_true, Option.map_some, Option.some.injEq] at hc'
          subst hc'
          obtain ⟨a, b⟩ := fresh_load hs ({ typeId := p.1, modes := setModes [] p.2 } : Core) h.state rfl rfl
          exact ⟨by simpa [ho] using a, b⟩
        | false =>
          simp only [ho, Option.map_some, Bool.false_eq_true, if_false, Option.some.injEq] at hc'
          subst hc'
          exact ⟨by simp, good_unloaded rfl rfl _⟩
  | setSide e on =>
    simp only [Holder.apply] at he
    split at he
    · cases he
    · split at he
      · cases he
      · cases he; exact setModes_core_ok hs h hk _
  | randomize draws =>
    simp only [Holder.apply] at he
    split at he
    · cases he
    · cases he; exact setModes_core_ok hs h hk _
  | setAbility a on =>
    simp only [Holder.apply] at he
    split at he
    · cases he
    · split at he
      · cases he
      · split at he
        · cases he
        · split at he
          · cases he
          · cases he; exact setModes_core_ok hs h hk _

theorem clearLog_ok {src : Option Source} (h : Holder) (hk : Holder.Ok src h) : Holder.Ok src h.clearLog := by
  refine ⟨hk.1, hk.2.1, ?_⟩
  intro c' hc'
  simp only [Holder.clearLog, Option.map_eq_some_iff] at hc'
  obtain ⟨c, hcc, rfl⟩ := hc'
  exact hk.2.2 c hcc

theorem reload_ok (w : World) (hw : w.WF) (hi : ∀ h ∈ w.items, Holder.Ok w.src h) (k : Option Nat) (att : Bool) :
    (w.reload k att).WF ∧ ∀ h ∈ (w.reload k att).items, Holder.Ok (w.reload k att).src h := by
  refine ⟨hw, ?_⟩
  intro h' hh'
  simp only [World.reload, List.mem_map] at hh'
  obtain ⟨h, hh, rfl⟩ := hh'
  have hs : SrcWF (w.reload k att).src := srcWF_of_mem hw k att
  split
  · rename_i ho
    have hc := unload_ok_fields h (hi h hh)
    exact load_ok hs _ (by simpa [Holder.unload] using ho) hc.1 hc.2
  · rename_i ho
    exact ok_off_fit h (by simpa using ho) (hi h hh)

/-- One step of the world keeps every item fine. -/
theorem step_ok (w : World) (hw : w.WF) (hi : ∀ h ∈ w.items, Holder.Ok w.src h) (op : Op) :
    (w.step op).1.WF ∧ ∀ h ∈ (w.step op).1.items, Holder.Ok (w.step op).1.src h := by
  have hs : SrcWF w.src := srcWF_of_mem hw w.source w.attached
  have hi1 : ∀ h ∈ w.items.map Holder.clearLog, Holder.Ok w.src h := by
    intro h hh
    obtain ⟨h0, hh0, rfl⟩ := List.mem_map.1 hh
    exact clearLog_ok h0 (hi h0 hh0)
  generalize hw1 : ({ w with items := w.items.map Holder.clearLog } : World) = w1
  have hsrc : w1.src = w.src := by subst hw1; rfl
  have hwf1 : w1.WF := by subst hw1; exact hw
  have hi1' : ∀ h ∈ w1.items, Holder.Ok w1.src h := by subst hw1; exact hi1
  have hstep : w.step op = (match op with
    | .new id kind typeId st =>
      if (w1.find? id).isSome then (w1, .err "bad-op") else
      ({ w1 with items := w1.items ++ [{ id, kind, state := if kind.mutableState then st else .offline,
                                         core := { typeId } }] }, .ok)
    | .item id hop =>
      match w1.find? id with
      | none => (w1, .err "bad-op")
      | some h =>
        match h.apply w1.src w1.abilityMap hop with
        | .error cls => (w1, .err cls)
        | .ok _ =>
          ({ w1 with items := w1.items.map fun h =>
              if h.id = id then (match h.apply w1.src w1.abilityMap hop with | .ok h' => h' | .error _ => h) else h }, .ok)
    | .setSource k =>
      if k = w1.source then (w1, .ok) else
      match k with
      | some i => if i < w1.sources.length then (w1.reload k w1.attached, .ok) else (w1, .err "bad-op")
      | none => (w1.reload none w1.attached, .ok)
    | .attach => if w1.attached then (w1, .err "ValueError") else (w1.reload w1.source true, .ok)
    | .detach => if !w1.attached then (w1, .err "KeyError") else (w1.reload w1.source false, .ok)) := by
    subst hw1; rfl
  rw [hstep]
  have base : w1.WF ∧ ∀ h ∈ w1.items, Holder.Ok w1.src h := ⟨hwf1, hi1'⟩
  have hs1 : SrcWF w1.src := hsrc ▸ hs
  cases op with
  | new id kind typeId st =>
    simp only
    split
    · exact base
    · refine ⟨hwf1, ?_⟩
      intro h hh
      simp only [List.mem_append, List.mem_singleton] at hh
      rcases hh with hh | rfl
      · exact hi1' h hh
      · exact clean_ok _ rfl ⟨rfl, rfl⟩ (fun c hc => by simp at hc)
  | item id hop =>
    simp only
    split
    · exact base
    · split
      · exact base
      · refine ⟨hwf1, ?_⟩
        intro h' hh'
        simp only [List.mem_map] at hh'
        obtain ⟨h, hh, rfl⟩ := hh'
        split
        · split
          · rename_i h2 he; exact apply_ok hs1 _ h h2 (hi1' h hh) hop he
          · exact hi1' h hh
        · exact hi1' h hh
  | setSource k =>
    simp only
    split
    · exact base
    · split
      · split
        · exact reload_ok w1 hwf1 hi1' _ _
        · exact base
      · exact reload_ok w1 hwf1 hi1' _ _
  | attach =>
    simp only
    split
    · exact base
    · exact reload_ok w1 hwf1 hi1' _ _
  | detach =>
    simp only
    split
    · exact base
    · exact reload_ok w1 hwf1 hi1' _ _

theorem run_ok (ops : List Op) : ∀ (w : World), w.WF → (∀ h ∈ w.items, Holder.Ok w.src h) →
    (w.run ops).WF ∧ ∀ h ∈ (w.run ops).items, Holder.Ok (w.run ops).src h := by
  induction ops with
  | nil => intro w hw hi; exact ⟨hw, hi⟩
  | cons op ops ih =>
    intro w hw hi
    obtain ⟨a, b⟩ := step_ok w hw hi op
    exact ih _ a b

/-! ### Switches built on run modes -/

theorem eq_of_id_eq {t : TypeDef} (hwf : t.WF) {a b : EffectDef} (ha : a ∈ t.effects) (hb : b ∈ t.effects)
    (h : a.id = b.id) : a = b := by
  have h1 := find_of_mem hwf ha
  have h2 := find_of_mem hwf hb
  rw [h] at h1
  exact Option.some.inj (h1.symm.trans h2)

theorem mem_resolve_iff {c : Core} {t : TypeDef} (ht : c.type = some t) (hwf : t.WF) {ed : EffectDef}
    (hed : ed ∈ t.effects) (st : State) : ed.id ∈ c.resolve st ↔ t.status c.modes st ed = true := by
  rw [mem_resolve ht]
  constructor
  · rintro ⟨ed', h1, h2, h3⟩
    rwa [eq_of_id_eq hwf h1 hed h2] at h3
  · intro h; exact ⟨ed, hed, rfl, h⟩

/-- Running set after `set_effect_mode`-style changes on an item that is on a fit. -/
theorem mem_setModes_running {c : Core} {t : TypeDef} (ht : c.type = some t) (hwf : t.WF) {ed : EffectDef}
    (hed : ed ∈ t.effects) (ms : List (Nat × Nat)) (st : State) :
    ed.id ∈ (c.setModes ms true st).running ↔ t.status (setModes c.modes ms) st ed = true := by
  simp only [Core.setModes, if_true]
  rw [mem_update_running]
  exact mem_resolve_iff (c := { c with modes := setModes c.modes ms }) ht hwf hed st

theorem setModes_fields (c : Core) (ms : List (Nat × Nat)) (onFit : Bool) (st : State) :
    (c.setModes ms onFit st).type = c.type ∧ (c.setModes ms onFit st).modes = setModes c.modes ms := by
  cases onFit <;> simp [Core.setModes, Core.update]

theorem mem_sideEffects {c : Core} {t : TypeDef} (ht : c.type = some t) (e : Nat) (ch : Rat) :
    (e, ch) ∈ c.sideEffects ↔ ∃ ed ∈ t.effects, ed.id = e ∧ ed.estate = .offline ∧ ed.chance = some ch := by
  simp only [Core.sideEffects, Core.effects, ht, List.mem_filterMap]
  constructor
  · rintro ⟨ed, h1, h2⟩
    split at h2
    · rename_i hoff
      simp only [Option.map_eq_some_iff, Prod.mk.injEq] at h2
      obtain ⟨ch', h3, rfl, rfl⟩ := h2
      exact ⟨ed, h1, rfl, hoff, h3⟩
    · cases h2
  · rintro ⟨ed, h1, rfl, h2, h3⟩
    exact ⟨ed, h1, by simp [h2, h3]⟩

theorem sideEffects_ids_sublist (l : List EffectDef) :
    ((l.filterMap fun e => if e.estate = .offline then e.chance.map fun ch => (e.id, ch) else none).map (·.1)).Sublist
      (l.map (·.id)) := by
  induction l with
  | nil => simp
  | cons a as ih =>
    simp only [List.filterMap_cons, List.map_cons]
    by_cases hoff : a.estate = .offline
    · cases hch : a.chance with
      | none => simp only [hoff, if_true, Option.map_none]; exact ih.cons _
      | some ch => simp only [hoff, if_true, Option.map_some, List.map_cons]; exact ih.cons_cons _
    · simp only [hoff, if_false]; exact ih.cons _

theorem sideEffects_nodup {c : Core} (hwf : ∀ t, c.type = some t → t.WF) : (c.sideEffects.map (·.1)).Nodup := by
  unfold Core.sideEffects Core.effects
  cases ht : c.type with
  | none => simp
  | some t => exact List.Nodup.sublist (sideEffects_ids_sublist t.effects) (hwf t ht).1

theorem sideStatus_eq {c : Core} {t : TypeDef} (ht : c.type = some t) (hwf : t.WF) {ed : EffectDef}
    (hed : ed ∈ t.effects) : c.sideStatus ed.id = t.status c.modes .offline ed := by
  simp [Core.sideStatus, ht, find_of_mem hwf hed]

theorem offline_le (st : State) : State.offline.le st = true := by cases st <;> rfl

/-- A chance-based offline effect runs exactly in state compliance (mode 2), not in full compliance (mode 1). -/
theorem side_status_of_mode (t : TypeDef) (modes : List (Nat × Nat)) (st : State) (ed : EffectDef)
    (hoff : ed.estate = .offline) (hch : ed.hasChance = true) (on : Bool)
    (hm : getMode modes ed.id = Core.sideMode on) : t.status modes st ed = on := by
  cases on <;>
    simp [TypeDef.status, hm, Core.sideMode, ModeK.ofId, decideStatus, hoff, offline_le, fullExtra, TypeDef.traits, hch]

theorem randomModesFrom_keys (draws : Nat → Rat) : ∀ (l : List (Nat × Rat)) (i : Nat),
    (Core.randomModesFrom draws i l).map (·.1) = l.map (·.1) := by
  intro l
  induction l with
  | nil => intro i; rfl
  | cons p ps ih => intro i; obtain ⟨e, ch⟩ := p; simp [Core.randomModesFrom, ih]

theorem randomModesFrom_find (draws : Nat → Rat) : ∀ (l : List (Nat × Rat)) (i0 j e : Nat) (ch : Rat),
    (l.map (·.1)).Nodup → l[j]? = some (e, ch) →
    (Core.randomModesFrom draws i0 l).find? (·.1 == e) = some (e, Core.sideMode (draws (i0 + j) < ch)) := by
  intro l
  induction l with
  | nil => intro i0 j e ch _ h; simp at h
  | cons p ps ih =>
    intro i0 j e ch hn h
    obtain ⟨e', ch'⟩ := p
    simp only [List.map_cons, List.nodup_cons] at hn
    cases j with
    | zero =>
      simp only [List.getElem?_cons_zero, Option.some.injEq, Prod.mk.injEq] at h
      obtain ⟨rfl, rfl⟩ := h
      simp [Core.randomModesFrom]
    | succ j =>
      simp only [List.getElem?_cons_succ] at h
      have hne : e' ≠ e := by
        intro hh
        apply hn.1
        rw [hh]
        exact List.mem_map.2 ⟨(e, ch), List.mem_of_getElem? h, rfl⟩
      have hb : (e' == e) = false := by simpa using hne
      simp only [Core.randomModesFrom, List.find?, hb]
      rw [ih (i0 + 1) j e ch hn.2 h, show i0 + 1 + j = i0 + (j + 1) by omega]

theorem abilityStatus_eq {c : Core} {t : TypeDef} (ht : c.type = some t) (hwf : t.WF) {ed : EffectDef}
    (hed : ed ∈ t.effects) (hact : ed.estate = .active) :
    c.abilityStatus ed.id = some (t.status c.modes .active ed) := by
  simp [Core.abilityStatus, ht, find_of_mem hwf hed, hact]

theorem ability_status_of_mode (t : TypeDef) (modes : List (Nat × Nat)) (st : State) (ed : EffectDef)
    (hact : ed.estate = .active) (on : Bool)
    (hm : getMode modes ed.id = Core.abilityMode (t.defaultEffect == some ed.id) on) :
    t.status modes st ed = (on && State.active.le st) := by
  cases on <;> cases hd : (t.defaultEffect == some ed.id) <;>
    simp [TypeDef.status, hm, hd, Core.abilityMode, ModeK.ofId, decideStatus, hact, fullExtra, TypeDef.traits]

end Eos.C05
