import EosModel.SourceMgr
/-! Helper lemmas about the source-manager model (association-list lookups, the two shapes of `add`). -/
namespace Eos.SourceMgr

variable {γ : Type} (ev : String)

theorem lookup_cons_eq (p : String × Nat) (ps : List (String × Nat)) (a' : String) (h : a' = p.1) :
    (p :: ps).lookup a' = some p.2 := by
  subst h; simp [List.lookup]
theorem lookup_cons_ne (p : String × Nat) (ps : List (String × Nat)) (a' : String) (h : a' ≠ p.1) :
    (p :: ps).lookup a' = ps.lookup a' := by
  have : (a' == p.1) = false := by simpa using h
  simp [List.lookup, this]

theorem lookup_snoc (l : List (String × Nat)) (a a' : String) (c : Nat) :
    (l ++ [(a, c)]).lookup a' = (match l.lookup a' with | some x => some x | none => if a' = a then some c else none) := by
  induction l with
  | nil =>
    by_cases h : a' = a
    · rw [List.nil_append, lookup_cons_eq _ _ _ h]; simp [h]
    · rw [List.nil_append, lookup_cons_ne _ _ _ h]; simp [h]
  | cons p ps ih =>
    by_cases h : a' = p.1
    · rw [List.cons_append, lookup_cons_eq _ _ _ h, lookup_cons_eq _ _ _ h]
    · rw [List.cons_append, lookup_cons_ne _ _ _ h, lookup_cons_ne _ _ _ h, ih]

theorem lookup_filter (l : List (String × Nat)) (a a' : String) :
    (l.filter (·.1 != a)).lookup a' = if a' = a then none else l.lookup a' := by
  induction l with
  | nil => simp
  | cons p ps ih =>
    by_cases hp : p.1 = a
    · have : (p.1 != a) = false := by simp [hp]
      rw [List.filter_cons_of_neg (p := fun x : String × Nat => x.1 != a) (by simp [this]), ih]
      by_cases ha : a' = a
      · simp [ha]
      · rw [lookup_cons_ne _ _ _ (by rw [hp]; exact ha)]
    · have : (p.1 != a) = true := by simp [hp]
      rw [List.filter_cons_of_pos (p := fun x : String × Nat => x.1 != a) this]
      by_cases h : a' = p.1
      · rw [lookup_cons_eq _ _ _ h, lookup_cons_eq _ _ _ h]; simp [h, hp]
      · rw [lookup_cons_ne _ _ _ h, lookup_cons_ne _ _ _ h, ih]

theorem mem_aliases_iff (w : World γ) (a : String) : a ∈ w.aliases ↔ w.lookup a ≠ none := by
  simp only [World.aliases, World.lookup]
  induction w.sources with
  | nil => simp
  | cons p ps ih =>
    by_cases h : a = p.1
    · simp [List.lookup, h]
    · have : (a == p.1) = false := by simp [h]
      simp [List.lookup, h, this, ih]

theorem lookup_fresh (w : World γ) (a : String) (h : a ∉ w.aliases) : w.lookup a = none := by
  have := mem_aliases_iff w a
  cases hl : w.lookup a <;> simp_all

theorem step_add_fresh (w : World γ) (a : String) (v : Option String) (o : γ) (c : Nat) (mk : Bool)
    (h : a ∉ w.aliases) :
    step ev w (.add a v o c mk) =
      ({ handlers := if needRebuild ev (w.handlers c).fp v then setHandler w.handlers c ⟨some (formatFp ev v), o⟩
                     else w.handlers,
         sources := w.sources ++ [(a, c)], default := if mk then some (a, c) else w.default },
       .added (needRebuild ev (w.handlers c).fp v)) := by
  simp [step, h]

theorem step_add_taken (w : World γ) (a : String) (v : Option String) (o : γ) (c : Nat) (mk : Bool)
    (h : a ∈ w.aliases) : step ev w (.add a v o c mk) = (w, .existingSourceError) := by
  simp [step, h]

theorem step_keeps_other_handlers (w : World γ) (op : Op γ) (c : Nat) (h : op.usesHandler c = false) :
    (step ev w op).1.handlers c = w.handlers c := by
  cases op with
  | add a v o ch mk =>
    have hne : c ≠ ch := by intro e; subst e; simp [Op.usesHandler] at h
    by_cases ha : a ∈ w.aliases
    · rw [step_add_taken ev w a v o ch mk ha]
    · rw [step_add_fresh ev w a v o ch mk ha]
      cases needRebuild ev (w.handlers ch).fp v <;> simp [setHandler, hne]
  | get a => simp only [step]; split <;> rfl
  | remove a => simp only [step]; split <;> rfl
  | list => rfl

theorem run_keeps_other_handlers (w : World γ) (ops : List (Op γ)) (c : Nat)
    (h : ∀ op ∈ ops, op.usesHandler c = false) : (run ev w ops).handlers c = w.handlers c := by
  induction ops generalizing w with
  | nil => rfl
  | cons op ops ih =>
    simp only [run, List.foldl_cons] at ih ⊢
    rw [ih _ (fun o ho => h o (by simp [ho])), step_keeps_other_handlers ev w op c (h op (by simp))]

theorem step_aliases_nodup (w : World γ) (op : Op γ) (h : w.aliases.Nodup) : (step ev w op).1.aliases.Nodup := by
  cases op with
  | add a v o ch mk =>
    by_cases ha : a ∈ w.aliases
    · rw [step_add_taken ev w a v o ch mk ha]; exact h
    · rw [step_add_fresh ev w a v o ch mk ha]
      simp only [World.aliases, List.map_append, List.map_cons, List.map_nil] at *
      exact List.nodup_append.mpr ⟨h, by simp, by intro x hx y hy; simp at hy; subst hy; intro e; subst e; exact ha hx⟩
  | get a => simp only [step]; split <;> exact h
  | remove a =>
    simp only [step]
    split
    · simp only [World.aliases] at *
      exact (List.Nodup.sublist (List.Sublist.map _ List.filter_sublist) h)
    · exact h
  | list => exact h

end Eos.SourceMgr
