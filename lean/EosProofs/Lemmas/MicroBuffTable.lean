import EosProofs.Lemmas.MicroAssembly
import EosProofs.Lemmas.MicroBuff
/-! Settled message-level states of universes **with** fleet boosts meet the specification's table.

`Lemmas/MicroBuff.lean` compares `gatherD` / `valueOfD` with `World.gather` / `World.valueOf` relative to a
reference reader; here the reference reader is the public read of the specification's table
`World.evalAll`, and the induction along the rank order of `Lemmas/MicroAssembly.lean` (`settled_aux_gen`)
gives the analogue of `settled_spec_eq_table` without the hypothesis "no buff effects":

* `BuffPayloadOK u cfg immune limited pen d` — for every running fleet-boost effect the registered
  warfare-buff modifiers are (a permutation of) the specification's `buffModifiers` computed from the table and
  the recorded targets are (a permutation of) the ships the specification boosts — or the projector has no
  projected modifier at all (then the service records no targets, and none matter);
* `BuffSettled …  d` — `d` is `derivedDyn u cfg` on loaded items, running effects and recorded targets of
  ordinary effects, and satisfies `BuffPayloadOK`;
* `settled_spec_eq_table_buff` — then the from-scratch values of `(cfg, d)` are the table's reads.

The only hypothesis about buff effects is `hnp`: a fleet-boost effect is not at the same time a projectable
(targeted, category 2) effect — for such an effect the specification applies the effect's own target-domain
modifiers once per projection target *and* once per boosted ship, while the service's projection register
records one target set per projector. -/
namespace Eos.Micro
open Eos.World Eos.Calc Eos.DepCache Eos.Machine Eos.Micro.L

variable {u : Universe} {immune limited : List Int} {pen : Nat → Rat} {cfg : Config}

/-- **Payload of the fleet boosts, from the specification's table**: for every configured item `a` with a
running fleet-boost effect `e`, `d.bspecs a.id e.id` is a permutation of the specification's warfare-buff
modifiers of `a` (templates selected by the buff id attributes as the table has them), and — unless
`projMods u d a e = []`, i.e. the boost has neither a registered well-formed warfare-buff modifier nor a
target-domain modifier of its own — `d.tgts a.id e.id` is a permutation of the ids of the ships the
specification boosts (own fit's ship, ships of the fits in the same fleet). -/
def BuffPayloadOK (u : Universe) (cfg : Config) (immune limited : List Int) (pen : Nat → Rat) (d : Dyn) : Prop :=
  BuffPayloadFor u cfg (read (evalAll u cfg immune limited pen)) d

/-- Settled dynamic state of a universe with fleet boosts: `derivedDyn` on loaded items, running effects and
the recorded targets of ordinary effects, `BuffPayloadOK` for the boosts. -/
def BuffSettled (u : Universe) (cfg : Config) (immune limited : List Int) (pen : Nat → Rat) (d : Dyn) : Prop :=
  BuffSettledFor u cfg (read (evalAll u cfg immune limited pen)) d

theorem BuffSettled.intro {d : Dyn} (hl : d.loaded = (derivedDyn u cfg).loaded) (ho : d.on = (derivedDyn u cfg).on)
    (ht : ∀ a ∈ cfg.items, ∀ e ∈ runningEffects u cfg a, e.isBuff = false →
      d.tgts a.id e.id = (derivedDyn u cfg).tgts a.id e.id)
    (hp : BuffPayloadOK u cfg immune limited pen d) : BuffSettled u cfg immune limited pen d :=
  ⟨hl, ho, ht, hp⟩

theorem BuffSettled.payloadOK {d : Dyn} (h : BuffSettled u cfg immune limited pen d) :
    BuffPayloadOK u cfg immune limited pen d := h.payload

/-- Without buff effects the derived state is settled in this sense. -/
theorem buffSettled_derived (hb : ∀ e ∈ u.effects, e.isBuff = false) :
    BuffSettled u cfg immune limited pen (derivedDyn u cfg) :=
  buffSettledFor_derived hb _

/-- The reader of the table of the attributes listed before `am` agrees with the public read of the finished
table on every attribute the calculation of `am` may read (rank-well-formed universe, unique ids). -/
theorem readDep_prefix_eq_read (hwf : rankWF u = true) (hun : UniqueAttrs u) (hc : UniqueIds cfg)
    {pre post : List AttrMeta} {am : AttrMeta} (hsplit : u.attrs = pre ++ am :: post) {y : Item}
    (hy : y ∈ cfg.items) {b : Int} (hb : b ∈ readable u am) :
    readDep u (pre.foldl (tblStep u cfg immune limited pen) []) y b =
      read (evalAll u cfg immune limited pen) y b := by
  have hun' : (u.attrs.map (·.id)).Nodup := hun
  have hpren : (pre.map (·.id)).Nodup := by
    rw [hsplit, List.map_append, List.nodup_append] at hun'; exact hun'.1
  by_cases hov : (y.kind == .skill && b == 280) = true
  · unfold readDep World.read; rw [if_pos hov, if_pos hov]
  · cases hmb : attrMeta? u b with
    | none =>
      have hget : (pre.foldl (tblStep u cfg immune limited pen) []).get y.id b = none := by
        refine get_eq_none fun e he heq => ?_
        obtain ⟨r0, h0, h0'⟩ := tbl_prefix (u := u) (cfg := cfg) (immune := immune) (limited := limited)
          (pen := pen) pre []
        rw [h0, List.nil_append] at he
        have := h0' e he
        rw [heq] at this
        obtain ⟨amb, hamb, hid⟩ := List.mem_map.1 this
        have : attrMeta? u amb.id = some amb :=
          attrMeta?_of_mem hun (by rw [hsplit]; exact List.mem_append_left _ hamb)
        rw [show amb.id = b from hid, hmb] at this; cases this
      rw [read_no_meta hmb (by simpa using hov)]
      unfold readDep; rw [if_neg hov, hget, hmb]; rfl
    | some amb =>
      have hbpre : b ∈ pre.map (·.id) := (rankWF_iff u).1 hwf pre am post hsplit b hb (by rw [hmb]; rfl)
      obtain ⟨amb', hamb', hid⟩ := List.mem_map.1 hbpre
      have hid : amb'.id = b := hid
      obtain ⟨p1, p2, hp⟩ := List.append_of_mem hamb'
      have hget := tbl_get (u := u) (immune := immune) (limited := limited) (pen := pen) hc hp hpren hy
      have hsplit' : u.attrs = p1 ++ amb' :: (p2 ++ am :: post) := by rw [hsplit, hp]; simp
      have hgetT := tbl_get (u := u) (immune := immune) (limited := limited) (pen := pen) hc hsplit' hun' hy
      rw [hid] at hget hgetT
      unfold readDep World.read
      rw [if_neg hov, if_neg hov, hget, evalAll_eq_foldl, hgetT]; rfl

theorem buffIdAttrs_readable {am : AttrMeta} (hany : u.buffs.any (·.tgtAttr == am.id) = true) {p : Int}
    (hp : p ∈ buffIdAttrs) : p ∈ readable u am := by
  refine List.mem_append_right _ (reads_buff hany ?_)
  simp only [buffIdAttrs, List.mem_cons, List.not_mem_nil, or_false] at hp
  rcases hp with rfl | rfl | rfl | rfl <;> simp [buffAttrs]

/-- The hypothesis of `settled_aux_gen` for a settled state with fleet boosts. -/
theorem buffSettled_hval (hwf : rankWF u = true) (hun : UniqueAttrs u) (hc : UniqueIds cfg)
    (hnp : ∀ e ∈ u.effects, e.isBuff = true → e.category ≠ 2) {d : Dyn}
    (hd : BuffSettled u cfg immune limited pen d) (pre : List AttrMeta) (am : AttrMeta) (post : List AttrMeta)
    (hsplit : u.attrs = pre ++ am :: post)
    (hrd : ∀ y a, readDep u (pre.foldl (tblStep u cfg immune limited pen) []) y a ≠ .divZero)
    (x : Item) (hx : x ∈ cfg.items) :
    valueOfD u cfg d immune limited pen (readDep u (pre.foldl (tblStep u cfg immune limited pen) [])) x am =
      valueOf u cfg immune limited pen (readDep u (pre.foldl (tblStep u cfg immune limited pen) [])) x am :=
  valueOfD_buff_eq hc hnp hd immune limited pen _ (fun y a _ _ h _ => hrd y a h) hx am
    fun hany _ ha _ hp => readDep_prefix_eq_read hwf hun hc hsplit ha (buffIdAttrs_readable hany hp)

theorem settled_aux_buff (hwf : rankWF u = true) (hun : UniqueAttrs u) (hc : UniqueIds cfg)
    (hnp : ∀ e ∈ u.effects, e.isBuff = true → e.category ≠ 2) {d : Dyn}
    (hd : BuffSettled u cfg immune limited pen d)
    (hz : (∀ entry ∈ evalAll u cfg immune limited pen, entry.2 ≠ .divZero) ∨
      ErrorFree u immune limited pen (worldGraph u immune limited pen hwf) cfg d)
    {x : Item} (hx : x ∈ cfg.items) {am : AttrMeta} (ham : am ∈ u.attrs) :
    spec (worldGraph u immune limited pen hwf (cfg, d)) (x.id, am.id) =
      valToOption (read (evalAll u cfg immune limited pen) x am.id) ∧
    read (evalAll u cfg immune limited pen) x am.id ≠ .divZero :=
  settled_aux_gen hwf hun hc (buffSettled_hval hwf hun hc hnp hd) hz hx ham

/-- **Settled states with fleet boosts meet the table.**  Rank-well-formed universe with unique attribute
ids in which no fleet-boost effect is also projectable; configuration with unique item ids; no `divZero` entry
in the table; dynamic state `d` that is the derived one on loaded items, running effects and targets of
ordinary effects and carries the specification's payload for every running boost (`BuffSettled`).  For every
configured item and every attribute with metadata the from-scratch value of the message-level state `(cfg, d)`
is what a public read of the specification's table returns.  (`settled_spec_eq_table` is the instance
`d = derivedDyn u cfg` for a universe without buff effects.) -/
theorem settled_spec_eq_table_buff (hwf : rankWF u = true) (hun : UniqueAttrs u) (hc : UniqueIds cfg)
    (hnp : ∀ e ∈ u.effects, e.isBuff = true → e.category ≠ 2)
    (hnz : ∀ entry ∈ evalAll u cfg immune limited pen, entry.2 ≠ .divZero) {d : Dyn}
    (hd : BuffSettled u cfg immune limited pen d)
    {x : Item} (hx : x ∈ cfg.items) {am : AttrMeta} (ham : am ∈ u.attrs) :
    spec (worldGraph u immune limited pen hwf (cfg, d)) (x.id, am.id) =
      valToOption (read (evalAll u cfg immune limited pen) x am.id) :=
  (settled_aux_buff hwf hun hc hnp hd (Or.inl hnz) hx ham).1

/-- The same from `ErrorFree` of the state, which also excludes `divZero` from the table's reads. -/
theorem settled_spec_eq_table_buff_of_errorFree (hwf : rankWF u = true) (hun : UniqueAttrs u) (hc : UniqueIds cfg)
    (hnp : ∀ e ∈ u.effects, e.isBuff = true → e.category ≠ 2) {d : Dyn}
    (hd : BuffSettled u cfg immune limited pen d)
    (hef : ErrorFree u immune limited pen (worldGraph u immune limited pen hwf) cfg d)
    {x : Item} (hx : x ∈ cfg.items) {am : AttrMeta} (ham : am ∈ u.attrs) :
    spec (worldGraph u immune limited pen hwf (cfg, d)) (x.id, am.id) =
      valToOption (read (evalAll u cfg immune limited pen) x am.id) ∧
    read (evalAll u cfg immune limited pen) x am.id ≠ .divZero :=
  settled_aux_buff hwf hun hc hnp hd (Or.inr hef) hx ham

/-- The theorem for universes without buff effects is an instance. -/
example (hb : ∀ e ∈ u.effects, e.isBuff = false) (hwf : rankWF u = true) (hun : UniqueAttrs u) (hc : UniqueIds cfg)
    (hnz : ∀ entry ∈ evalAll u cfg immune limited pen, entry.2 ≠ .divZero)
    {x : Item} (hx : x ∈ cfg.items) {am : AttrMeta} (ham : am ∈ u.attrs) :
    spec (worldGraph u immune limited pen hwf (cfg, derivedDyn u cfg)) (x.id, am.id) =
      valToOption (read (evalAll u cfg immune limited pen) x am.id) :=
  settled_spec_eq_table_buff hwf hun hc (fun e he h => by rw [hb e he] at h; cases h) hnz
    (buffSettled_derived hb) hx ham

/-! ## Non-vacuity: a fleet of two fits

Fit 0 (ship 1, a high-slot module 2 with a running fleet-boost effect 2000) and fit 1 (ship 3) in fleet 7.  The
module's buff id attribute 2468 = 10 selects the template "multiply attribute 37 of the boosted ship by the buff
value" (attribute 2469 = 3/2).  The dynamic state records the two ships as targets of the boost and the one
warfare-buff modifier as payload; both ships read 150 on both levels. -/
def fleetU : Universe :=
  { attrs := [⟨2468, none, none, true, true⟩, ⟨2469, none, none, true, true⟩, ⟨37, none, none, true, true⟩],
    effects := [⟨2000, 1, none, none, true, []⟩],
    types := [⟨1, none, some 6, none, [(37, 100)], [], []⟩,
              ⟨2, none, some 7, some 2000, [(2468, 10), (2469, 3/2)], [2000], []⟩],
    buffs := [⟨10, 1, none, 37, 6, 1⟩] }
def fleetShip1 : Item := ⟨1, .ship, 1, 0, 1, none, none, none, []⟩
def fleetMod : Item := ⟨2, .moduleHigh, 2, 0, 3, none, none, none, []⟩
def fleetShip3 : Item := ⟨3, .ship, 1, 1, 1, none, none, none, []⟩
def fleetCfg : Config :=
  { hasSource := true, fits := [⟨0, some 1, none, some 7⟩, ⟨1, some 3, none, some 7⟩],
    items := [fleetShip1, fleetMod, fleetShip3] }
def fleetD : Dyn :=
  { loaded := (derivedDyn fleetU fleetCfg).loaded, on := (derivedDyn fleetU fleetCfg).on,
    tgts := fun i e => if i = 2 ∧ e = 2000 then [1, 3] else [],
    bspecs := fun i e => if i = 2 ∧ e = 2000 then [⟨1, 4, none, 37, 6, 1, some 10, 2469⟩] else [] }
abbrev fleetPen : Nat → Rat := fun _ => 1

theorem fleet_settled : BuffSettled fleetU fleetCfg specImmune specLimited fleetPen fleetD := by
  have r1 : runningEffects fleetU fleetCfg fleetShip1 = [] := by decide +kernel
  have r2 : runningEffects fleetU fleetCfg fleetMod = [⟨2000, 1, none, none, true, []⟩] := by rfl
  have r3 : runningEffects fleetU fleetCfg fleetShip3 = [] := by decide +kernel
  refine BuffSettled.intro rfl rfl ?_ ?_
  · intro a ha e he hbf
    simp only [fleetCfg, List.mem_cons, List.not_mem_nil, or_false] at ha
    rcases ha with rfl | rfl | rfl
    · rw [r1] at he; cases he
    · rw [r2] at he; simp only [List.mem_cons, List.not_mem_nil, or_false] at he; subst he; cases hbf
    · rw [r3] at he; cases he
  · intro a ha e he _
    simp only [fleetCfg, List.mem_cons, List.not_mem_nil, or_false] at ha
    rcases ha with rfl | rfl | rfl
    · rw [r1] at he; cases he
    · rw [r2] at he; simp only [List.mem_cons, List.not_mem_nil, or_false] at he; subst he
      refine ⟨⟨[⟨1, 4, none, 37, 6, 1, some 10, 2469⟩], by decide +kernel, List.Perm.refl _⟩, ?_⟩
      have : boostTargets fleetCfg fleetMod.fit = [fleetShip1, fleetShip3] := by rfl
      rw [this]; exact Or.inr (List.Perm.refl _)
    · rw [r3] at he; cases he

/-- The hypotheses of `settled_spec_eq_table_buff` hold for this world (a universe *with* a buff effect), and
the boosted ship of the other fit reads 100 · 3/2. -/
example : spec (worldGraph fleetU specImmune specLimited fleetPen (by decide) (fleetCfg, fleetD)) (3, 37) =
    some 150 := by
  have h := settled_spec_eq_table_buff (u := fleetU) (cfg := fleetCfg) (immune := specImmune)
    (limited := specLimited) (pen := fleetPen) (by decide) (by unfold UniqueAttrs; decide)
    (by unfold UniqueIds; decide) (by decide) (by decide +kernel) fleet_settled
    (x := fleetShip3) (by simp [fleetCfg]) (am := ⟨37, none, none, true, true⟩) (by simp [fleetU])
  rw [show ((3 : Nat), (37 : Int)) = (fleetShip3.id, (⟨37, none, none, true, true⟩ : AttrMeta).id) from rfl, h]
  decide +kernel
example : ¬ ∀ e ∈ fleetU.effects, e.isBuff = false := by decide
/-- Without the payload the message-level state does not meet the table. -/
example : valueOfD fleetU fleetCfg (derivedDyn fleetU fleetCfg) specImmune specLimited fleetPen
    (read (evalAll fleetU fleetCfg specImmune specLimited fleetPen)) fleetShip3 ⟨37, none, none, true, true⟩ =
      .ok 100 := by decide +kernel
example : valueOfD fleetU fleetCfg fleetD specImmune specLimited fleetPen
    (read (evalAll fleetU fleetCfg specImmune specLimited fleetPen)) fleetShip3 ⟨37, none, none, true, true⟩ =
      .ok 150 := by decide +kernel

/-! ### A running boost with an unknown buff id

The same world, but the module's buff id attribute is 11, for which the universe has no template: the service
registers no warfare-buff modifier and publishes no `EffectApplied`, so the settled state records no targets for
the running boost (while `boostTargets` lists both ships).  `BuffSettled` holds through the first disjunct of
the target clause, and the ships read their base value on both levels. -/
def fleetU2 : Universe :=
  { fleetU with types := [⟨1, none, some 6, none, [(37, 100)], [], []⟩,
                          ⟨2, none, some 7, some 2000, [(2468, 11), (2469, 3/2)], [2000], []⟩] }
def fleetD2 : Dyn :=
  { loaded := (derivedDyn fleetU2 fleetCfg).loaded, on := (derivedDyn fleetU2 fleetCfg).on,
    tgts := fun _ _ => [], bspecs := fun _ _ => [] }

theorem fleet2_settled : BuffSettled fleetU2 fleetCfg specImmune specLimited fleetPen fleetD2 := by
  have r1 : runningEffects fleetU2 fleetCfg fleetShip1 = [] := by decide +kernel
  have r2 : runningEffects fleetU2 fleetCfg fleetMod = [⟨2000, 1, none, none, true, []⟩] := by rfl
  have r3 : runningEffects fleetU2 fleetCfg fleetShip3 = [] := by decide +kernel
  refine BuffSettled.intro rfl rfl ?_ ?_
  · intro a ha e he hbf
    simp only [fleetCfg, List.mem_cons, List.not_mem_nil, or_false] at ha
    rcases ha with rfl | rfl | rfl
    · rw [r1] at he; cases he
    · rw [r2] at he; simp only [List.mem_cons, List.not_mem_nil, or_false] at he; subst he; cases hbf
    · rw [r3] at he; cases he
  · intro a ha e he _
    simp only [fleetCfg, List.mem_cons, List.not_mem_nil, or_false] at ha
    rcases ha with rfl | rfl | rfl
    · rw [r1] at he; cases he
    · rw [r2] at he; simp only [List.mem_cons, List.not_mem_nil, or_false] at he; subst he
      exact ⟨⟨[], by decide +kernel, List.Perm.refl _⟩, Or.inl rfl⟩
    · rw [r3] at he; cases he

/-- The running boost has boost targets in the specification but none recorded. -/
example : (boostTargets fleetCfg fleetMod.fit).map (·.id) = [1, 3] ∧ fleetD2.tgts 2 2000 = [] := ⟨by rfl, rfl⟩
example : spec (worldGraph fleetU2 specImmune specLimited fleetPen (by decide) (fleetCfg, fleetD2)) (3, 37) =
    some 100 := by
  have h := settled_spec_eq_table_buff (u := fleetU2) (cfg := fleetCfg) (immune := specImmune)
    (limited := specLimited) (pen := fleetPen) (by decide) (by unfold UniqueAttrs; decide)
    (by unfold UniqueIds; decide) (by decide) (by decide +kernel) fleet2_settled
    (x := fleetShip3) (by simp [fleetCfg]) (am := ⟨37, none, none, true, true⟩) (by simp [fleetU2, fleetU])
  rw [show ((3 : Nat), (37 : Int)) = (fleetShip3.id, (⟨37, none, none, true, true⟩ : AttrMeta).id) from rfl, h]
  decide +kernel

end Eos.Micro
