import EosGen.AffectsTableL04
/-! C02: on every case of the regenerated local "which items does the modifier select" table whose affector
class has number 04 (`Eos.World.Kind.ofNat?`), the specification's `affectsLocal` gives the answer the real code
gave; the block has exactly the generated number of cases, of "modified" cases and of cases with a valid modifier (kernel evaluation; one file
per affector class so the checks run in parallel). -/
namespace Eos.C02
open Eos.AffectsSpec EosGen.AffectsTable

theorem affects_blockL04_ok : localBlockOk blockL04 blockL04Cases blockL04Modified blockL04Valid = true := by decide +kernel

end Eos.C02
