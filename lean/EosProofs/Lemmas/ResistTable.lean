import EosProofs.Lemmas.GatherVia
import EosProofs.Lemmas.ResistTable04
import EosProofs.Lemmas.ResistTable05
import EosProofs.Lemmas.ResistTable06
import EosProofs.Lemmas.ResistTable08
import EosGen.ResistTable
/-! C02: the per-block kernel checks of the regenerated resistance table put together, and translated from the
forms the kernel evaluated (`specGatherResistAt`: one running effect, evaluated once per row) to statements about
`Eos.World.gather` itself (`gather_of_sole`). -/
namespace Eos.C02
open Eos.AffectsSpec Eos.World EosGen.ResistTable

/-- What the row check establishes for a case. -/
def ResistGood (c : ResistCase) : Prop :=
  c.x.typeId = c.tx.id ∧ specResist c = some c.obs ∧ specResist c = some c.obsInc ∧
    specGatherResist c = some c.obs

theorem resistRow_good {r : ResistRow} (h : r.ok = true) : ∀ c ∈ r.cases, ResistGood c := by
  unfold ResistRow.ok at h
  split at h
  · rename_i b ta e t a hact htgt haff
    split at h
    · rename_i v hv
      intro c hc
      have hc' := List.all_eq_true.1 h c hc
      simp only [ResistRow.cases, haff, htgt] at hc
      obtain ⟨p, _, rfl⟩ := List.mem_map.1 hc
      simp only [resistCaseOkAt, Bool.and_eq_true, beq_iff_eq, agree2_iff, specGatherResistAt] at hc'
      refine ⟨hc'.1.1, hc'.1.2.1, hc'.1.2.2, ?_⟩
      simp only [specGatherResist, hv, gather_of_sole hact]
      exact hc'.2
    · cases h
  · cases h

theorem resistBlockOk_spec {rows : List ResistRow} {n k v : Nat} (h : resistBlockOk rows n k v = true) :
    (∀ c ∈ resistCasesOf rows, ResistGood c) ∧ (resistCasesOf rows).length = n ∧
      (resistCasesOf rows).countP (·.obs.isSome) = k ∧ (resistCasesOf rows).countP (·.valid) = v := by
  simp only [resistBlockOk, Bool.and_eq_true, List.all_eq_true, beq_iff_eq] at h
  refine ⟨fun c hc => ?_, h.1.1.1.2, h.1.1.2, h.1.2⟩
  obtain ⟨r, hr, hcr⟩ := List.mem_flatMap.1 hc
  exact resistRow_good (h.1.1.1.1 r hr) c hcr

theorem resist_cases_good : ∀ c ∈ resistCases, ResistGood c := by
  intro c hc
  simp only [resistCases, List.mem_flatMap] at hc
  obtain ⟨b, hb, hcb⟩ := hc
  simp only [resistBlocks, List.mem_cons, List.not_mem_nil, or_false] at hb
  rcases hb with rfl | rfl | rfl | rfl
  · exact (resistBlockOk_spec resist_block04_ok).1 c hcb
  · exact (resistBlockOk_spec resist_block05_ok).1 c hcb
  · exact (resistBlockOk_spec resist_block06_ok).1 c hcb
  · exact (resistBlockOk_spec resist_block08_ok).1 c hcb

theorem resist_counts : resistCases.length = resistCaseCount ∧
    resistCases.countP (·.obs.isSome) = resistModifiedCount ∧ resistCases.countP (·.valid) = resistValidCount := by
  simp only [resistCases, resistBlocks, List.flatMap_cons, List.flatMap_nil, List.length_append, List.length_nil,
    List.countP_append, List.countP_nil,
    (resistBlockOk_spec resist_block04_ok).2.1, (resistBlockOk_spec resist_block04_ok).2.2.1,
    (resistBlockOk_spec resist_block04_ok).2.2.2,
    (resistBlockOk_spec resist_block05_ok).2.1, (resistBlockOk_spec resist_block05_ok).2.2.1,
    (resistBlockOk_spec resist_block05_ok).2.2.2,
    (resistBlockOk_spec resist_block06_ok).2.1, (resistBlockOk_spec resist_block06_ok).2.2.1,
    (resistBlockOk_spec resist_block06_ok).2.2.2,
    (resistBlockOk_spec resist_block08_ok).2.1, (resistBlockOk_spec resist_block08_ok).2.2.1,
    (resistBlockOk_spec resist_block08_ok).2.2.2]
  decide

end Eos.C02
