import EosGen.ResistTable05
/-! C02: on every case of the regenerated resistance table whose projector class has number 05
(`Eos.World.Kind.ofNat?`), the specification's `affectsProjected` + `resistOf` and the whole `gather` give the
selection and the resistance factor the real code applied (both observations); the block has exactly the
generated number of cases, of "modified" cases and of cases with a valid modifier (kernel evaluation). -/
namespace Eos.C02
open Eos.AffectsSpec EosGen.ResistTable

theorem resist_block05_ok : resistBlockOk blockR05 blockR05Cases blockR05Modified blockR05Valid = true := by
  decide +kernel

end Eos.C02
