import EosProofs.Lemmas.ContainersWorld
/-! Outcome of every container method of the model, case by case: which error with the state rolled back
to what it was, or success with the new state in closed form.  The property files read off C06 (errors
leave the state unchanged), I4 preservation and the refinement statements of C07 from these. -/
namespace Eos.Containers

/-- Position `list.insert` is finally called with inside `ItemList.insert`. -/
def insPos (l : List (Option Nat)) (index : Int) : Nat :=
  if index < 0 then ((allocate l (index - 1)).length + index).toNat else index.toNat

theorem insPos_le (l : List (Option Nat)) (index : Int) : insPos l index ≤ (allocate l (index - 1)).length := by
  unfold insPos; rw [allocate_length]; split <;> omega

/-- Either nothing was allocated, or the insert position is the new end of the list. -/
theorem insPos_cases (l : List (Option Nat)) (index : Int) :
    allocate l (index - 1) = l ∨ insPos l index = (allocate l (index - 1)).length := by
  by_cases h : index - 1 < l.length
  · exact Or.inl (allocate_of_lt h)
  · right; unfold insPos; rw [allocate_length, if_neg (by omega)]; omega

/-! ## ItemList -/

theorem listInsert_cases (U : Univ) (s : World) (f r : Nat) (index : Int) (v : Option Nat)
    (hnt : NoTrail (s.lists f r)) :
    listInsert U s f r index v = (.error .typeError, s) ∨
    (v = none ∧ listInsert U s f r index v =
      (.ok, s.setList f r (cleanup (pyInsert (allocate (s.lists f r) (index - 1)) (insPos (s.lists f r) index) none)))) ∨
    (∃ i, v = some i ∧ s.owner i ≠ none ∧ listInsert U s f r index v = (.error .valueError, s)) ∨
    (∃ i, v = some i ∧ s.owner i = none ∧ listInsert U s f r index v =
      (.ok, (s.setList f r (pyInsert (allocate (s.lists f r) (index - 1)) (insPos (s.lists f r) index) (some i))).setOwner
        i (some (.rack f r)))) := by
  unfold listInsert
  by_cases hc : checkClass U (.rack f r) v true
  · simp only [hc, Bool.not_true, Bool.false_eq_true, if_false]
    cases v with
    | none => exact Or.inr (Or.inl ⟨rfl, rfl⟩)
    | some i =>
      right; right
      cases ho : s.owner i with
      | none => exact Or.inr ⟨i, rfl, ho, by simp [ho, insPos]⟩
      | some p =>
        refine Or.inl ⟨i, rfl, by simp [ho], ?_⟩
        simp only [setList_owner, ho, setList_setList]
        rw [show (if index < 0 then ((allocate (s.lists f r) (index - 1)).length + index).toNat else index.toNat)
          = insPos (s.lists f r) index from rfl, pyInsert_eraseIdx (insPos_le _ _), cleanup_allocate hnt, setList_self]
  · left; simp [hc]

theorem listAppend_cases (U : Univ) (s : World) (f r : Nat) (v : Option Nat) :
    listAppend U s f r v = (.error .typeError, s) ∨
    (∃ i, v = some i ∧ s.owner i ≠ none ∧ listAppend U s f r v = (.error .valueError, s)) ∨
    (∃ i, v = some i ∧ s.owner i = none ∧ listAppend U s f r v =
      (.ok, (s.setList f r (s.lists f r ++ [some i])).setOwner i (some (.rack f r)))) := by
  unfold listAppend
  cases v with
  | none => exact Or.inl rfl
  | some i =>
    by_cases hc : checkClass U (.rack f r) (some i) false
    · simp only [hc, Bool.not_true, Bool.false_eq_true, if_false]
      right
      cases ho : s.owner i with
      | none => exact Or.inr ⟨i, rfl, ho, by simp [ho]⟩
      | some p => exact Or.inl ⟨i, rfl, by simp [ho], by simp [ho]⟩
    · left; simp [hc]

/-- `listPut` on a list `l` that is the rack plus allocated holes, at a hole. -/
theorem listPut_cases (s : World) (f r : Nat) (l : List (Option Nat)) (k i : Nat)
    (hl : cleanup l = s.lists f r) (hk : l[k]? = some none) :
    (s.owner i ≠ none ∧ listPut s f r l k i = (.error .valueError, s)) ∨
    (s.owner i = none ∧ listPut s f r l k i = (.ok, (s.setList f r (l.set k (some i))).setOwner i (some (.rack f r)))) := by
  unfold listPut
  cases ho : s.owner i with
  | none => exact Or.inr ⟨rfl, by simp [ho]⟩
  | some p =>
    refine Or.inl ⟨by simp, ?_⟩
    simp only [setList_owner, ho, setList_setList]
    rw [set_set_none_of_hole hk, hl, setList_self]

/-- Successful `place`: the position `k` the index denotes in the (possibly extended) rack was a hole. -/
def PlaceOk (s : World) (f r : Nat) (index : Int) (i : Nat) (res : Res) : Prop :=
  ∃ k, pyIndex (allocate (s.lists f r) index).length index = some k ∧
    (allocate (s.lists f r) index)[k]? = some none ∧ s.owner i = none ∧
    res = (.ok, (s.setList f r ((allocate (s.lists f r) index).set k (some i))).setOwner i (some (.rack f r)))

theorem listPlace_cases (U : Univ) (s : World) (f r : Nat) (index : Int) (v : Option Nat)
    (hnt : NoTrail (s.lists f r)) :
    (∃ e, listPlace U s f r index v = (.error e, s)) ∨ (∃ i, v = some i ∧ PlaceOk s f r index i (listPlace U s f r index v)) := by
  unfold listPlace
  cases v with
  | none => exact Or.inl ⟨_, rfl⟩
  | some i =>
    by_cases hc : checkClass U (.rack f r) (some i) false
    · simp only [hc, Bool.not_true, Bool.false_eq_true, if_false]
      cases hp : pyIndex (s.lists f r).length index with
      | some k =>
        have hk := pyIndex_lt hp
        have hal : allocate (s.lists f r) index = s.lists f r := by
          apply allocate_of_lt
          by_cases hi : 0 ≤ index
          · have := pyIndex_nonneg hp hi; omega
          · omega
        simp only
        cases hv : (s.lists f r)[k]? with
        | none => rw [List.getElem?_eq_none_iff] at hv; omega
        | some x =>
          cases x with
          | some j => exact Or.inl ⟨_, rfl⟩
          | none =>
            simp only
            rcases listPut_cases s f r (s.lists f r) k i (cleanup_of_noTrail hnt) hv with ⟨_, h⟩ | ⟨ho, h⟩
            · exact Or.inl ⟨_, h⟩
            · exact Or.inr ⟨i, rfl, k, by rw [hal]; exact hp, by rw [hal]; exact hv, ho, by rw [hal]; exact h⟩
      | none =>
        simp only
        cases hp2 : pyIndex (allocate (s.lists f r) index).length index with
        | none =>
          left
          have hneg : index < 0 := by
            rcases Int.lt_or_le index 0 with h | h
            · exact h
            · exfalso
              unfold pyIndex at hp2
              rw [if_pos h, allocate_length] at hp2
              split at hp2
              · cases hp2
              · omega
          rw [allocate_of_lt (by omega), setList_self]
          exact ⟨_, rfl⟩
        | some k =>
          simp only
          have hk := pyIndex_lt hp2
          have hge : (s.lists f r).length ≤ k := by
            by_cases hi : 0 ≤ index
            · have := pyIndex_nonneg hp2 hi
              have := pyIndex_none_nonneg hp hi
              omega
            · exfalso
              rw [allocate_of_lt (by omega)] at hp2
              rw [hp] at hp2; cases hp2
          have hv := allocate_getElem?_ge hge hk
          rcases listPut_cases s f r _ k i (cleanup_allocate hnt index) hv with ⟨_, h⟩ | ⟨ho, h⟩
          · exact Or.inl ⟨_, h⟩
          · exact Or.inr ⟨i, rfl, k, hp2, hv, ho, h⟩
    · left; simp [hc]

/-- Successful `equip`: the first hole, or one slot past the end when there is none. -/
def EquipOk (s : World) (f r : Nat) (i : Nat) (res : Res) : Prop :=
  s.owner i = none ∧
  ((∃ k, (s.lists f r)[k]? = some none ∧ (∀ j < k, (s.lists f r)[j]? ≠ some none) ∧
      res = (.ok, (s.setList f r ((s.lists f r).set k (some i))).setOwner i (some (.rack f r)))) ∨
   (none ∉ s.lists f r ∧
      res = (.ok, (s.setList f r (s.lists f r ++ [some i])).setOwner i (some (.rack f r)))))

theorem listEquip_cases (U : Univ) (s : World) (f r : Nat) (v : Option Nat) (hnt : NoTrail (s.lists f r)) :
    (∃ e, listEquip U s f r v = (.error e, s)) ∨ (∃ i, v = some i ∧ EquipOk s f r i (listEquip U s f r v)) := by
  unfold listEquip
  cases v with
  | none => exact Or.inl ⟨_, rfl⟩
  | some i =>
    by_cases hc : checkClass U (.rack f r) (some i) false
    · simp only [hc, Bool.not_true, Bool.false_eq_true, if_false]
      cases hx : indexOf? none (s.lists f r) with
      | some k =>
        simp only
        obtain ⟨hv, hmin⟩ := indexOf?_some hx
        rcases listPut_cases s f r (s.lists f r) k i (cleanup_of_noTrail hnt) hv with ⟨_, h⟩ | ⟨ho, h⟩
        · exact Or.inl ⟨_, h⟩
        · exact Or.inr ⟨i, rfl, ho, Or.inl ⟨k, hv, hmin, h⟩⟩
      | none =>
        simp only
        have hv : (s.lists f r ++ [none])[(s.lists f r).length]? = some none := by simp
        have hcl : cleanup (s.lists f r ++ [none]) = s.lists f r := by
          have := cleanup_append_nones (s.lists f r) 1
          rw [cleanup_of_noTrail hnt] at this
          simpa using this
        rcases listPut_cases s f r _ _ i hcl hv with ⟨_, h⟩ | ⟨ho, h⟩
        · exact Or.inl ⟨_, h⟩
        · refine Or.inr ⟨i, rfl, ho, Or.inr ⟨indexOf?_none hx, ?_⟩⟩
          rw [h]; simp
    · exact Or.inl ⟨.typeError, by simp [hc]⟩

theorem listAtIdx_cases (act : World → Nat → Nat → Nat → Res) (s : World) (f r : Nat) (index : Int) :
    listAtIdx act s f r index = (.error .indexError, s) ∨
    (∃ k, pyIndex (s.lists f r).length index = some k ∧ k < (s.lists f r).length ∧ listAtIdx act s f r index = act s f r k) := by
  unfold listAtIdx
  cases hp : pyIndex (s.lists f r).length index with
  | none => exact Or.inl rfl
  | some k => exact Or.inr ⟨k, rfl, pyIndex_lt hp, rfl⟩

theorem listAtVal_cases (act : World → Nat → Nat → Nat → Res) (s : World) (f r : Nat) (v : Option Nat) :
    listAtVal act s f r v = (.error .valueError, s) ∨
    (∃ k, (s.lists f r)[k]? = some v ∧ (∀ j < k, (s.lists f r)[j]? ≠ some v) ∧ listAtVal act s f r v = act s f r k) := by
  unfold listAtVal
  cases hp : indexOf? v (s.lists f r) with
  | none => exact Or.inl rfl
  | some k => exact Or.inr ⟨k, (indexOf?_some hp).1, (indexOf?_some hp).2, rfl⟩

theorem listRemoveAt_eq (s : World) (f r k : Nat) (x : Option Nat) (hk : (s.lists f r)[k]? = some x) :
    listRemoveAt s f r k = (.ok, (match x with | some i => s.setOwner i none | none => s).setList f r
      (cleanup ((s.lists f r).eraseIdx k))) := by
  unfold listRemoveAt
  cases x <;> simp [hk]

theorem listFreeAt_eq (s : World) (f r k : Nat) (x : Option Nat) (hk : (s.lists f r)[k]? = some x) :
    listFreeAt s f r k = (.ok, match x with
      | some i => (s.setOwner i none).setList f r (cleanup ((s.lists f r).set k none))
      | none => s) := by
  unfold listFreeAt
  cases x <;> simp [hk]

/-! ## ItemSet -/

theorem setAdd_cases (U : Univ) (s : World) (c : SetId) (v : Option Nat) :
    setAdd U s c v = (.error .typeError, s) ∨
    (∃ i, v = some i ∧ s.owner i ≠ none ∧ setAdd U s c v = (.error .valueError, s)) ∨
    (∃ i, v = some i ∧ s.owner i = none ∧ setAdd U s c v =
      (.ok, (s.setSet c (if i ∈ s.sets c then s.sets c else i :: s.sets c)).setOwner i (some (.set c)))) := by
  unfold setAdd
  cases v with
  | none => exact Or.inl rfl
  | some i =>
    by_cases hc : checkClass U (.set c) (some i) false
    · simp only [hc, Bool.not_true, Bool.false_eq_true, if_false]
      right
      cases ho : s.owner i with
      | none => exact Or.inr ⟨i, rfl, ho, by simp [ho]⟩
      | some p =>
        refine Or.inl ⟨i, rfl, by simp [ho], ?_⟩
        by_cases hm : i ∈ s.sets c <;> simp [ho, hm]
    · left; simp [hc]

theorem setRemove_cases (s : World) (c : SetId) (v : Option Nat) :
    setRemove s c v = (.error .keyError, s) ∨
    (∃ i, v = some i ∧ i ∈ s.sets c ∧ setRemove s c v = (.ok, (s.setOwner i none).setSet c ((s.sets c).erase i))) := by
  unfold setRemove
  cases v with
  | none => exact Or.inl rfl
  | some i =>
    by_cases hm : i ∈ s.sets c
    · exact Or.inr ⟨i, rfl, hm, by simp [hm]⟩
    · left; simp [hm]

/-! ## keyed containers -/

theorem lookupKey_none_delKey {key : Nat} {l : List (Nat × Nat)} (h : lookupKey key l = none) : delKey key l = l := by
  induction l with
  | nil => rfl
  | cons e es ih =>
    obtain ⟨k', v'⟩ := e
    unfold lookupKey at h
    split at h
    · cases h
    · rename_i hk
      simp only [delKey, List.filter_cons, ne_eq, hk, not_false_eq_true, decide_true, if_true]
      congr 1; exact ih h

theorem delKey_cons_self {key i : Nat} {l : List (Nat × Nat)} (h : lookupKey key l = none) :
    delKey key ((key, i) :: l) = l := by
  simp only [delKey, List.filter_cons, ne_eq, not_true_eq_false, decide_false, Bool.false_eq_true, if_false]
  exact lookupKey_none_delKey h

/-- Successful keyed add: key was free, item unowned; stored under the key and in the inner set. -/
def KeyedAddOk (s : World) (c : SetId) (key i : Nat) (res : Res) : Prop :=
  lookupKey key (s.keyed c) = none ∧ s.owner i = none ∧
  res = (.ok, ((s.setKeyed c ((key, i) :: s.keyed c)).setSet c
    (if i ∈ s.sets c then s.sets c else i :: s.sets c)).setOwner i (some (.set c)))

theorem keyedAdd_cases (U : Univ) (s : World) (c : SetId) (key : Nat) (v : Option Nat) :
    (∃ e, keyedAdd U s c key v = (.error e, s)) ∨ (∃ i, v = some i ∧ KeyedAddOk s c key i (keyedAdd U s c key v)) := by
  unfold keyedAdd
  by_cases hc : checkClass U (.set c) v false
  · simp only [hc, Bool.not_true, Bool.false_eq_true, if_false]
    cases hl : lookupKey key (s.keyed c) with
    | some x => exact Or.inl ⟨_, rfl⟩
    | none =>
      cases v with
      | none => exact Or.inl ⟨_, rfl⟩
      | some i =>
        simp only
        rcases setAdd_cases U (s.setKeyed c ((key, i) :: s.keyed c)) c (some i) with h | ⟨j, hj, _, h⟩ | ⟨j, hj, ho, h⟩
        · left; rw [h]; simp [delKey_cons_self hl]
        · left; rw [h]; simp [delKey_cons_self hl]
        · cases hj
          right
          exact ⟨i, rfl, hl, by simpa using ho, by rw [h]; rfl⟩
  · left; simp [hc]

theorem keyedRemove_cases (s : World) (c : SetId) (key : Nat) (v : Option Nat) :
    keyedRemove s c key v = (.error .keyError, s) ∨
    (∃ i, v = some i ∧ i ∈ s.sets c ∧ lookupKey key (s.keyed c) = none ∧
      keyedRemove s c key v = (.error .keyError, (s.setOwner i none).setSet c ((s.sets c).erase i))) ∨
    (∃ i, v = some i ∧ i ∈ s.sets c ∧ (lookupKey key (s.keyed c)).isSome ∧
      keyedRemove s c key v = (.ok, ((s.setOwner i none).setSet c ((s.sets c).erase i)).setKeyed c (delKey key (s.keyed c)))) := by
  unfold keyedRemove
  rcases setRemove_cases s c v with h | ⟨i, hv, hm, h⟩
  · left; rw [h]
  · right
    rw [h]
    simp only [setSet_keyed, setOwner_keyed]
    cases hl : lookupKey key (s.keyed c) with
    | none => exact Or.inl ⟨i, hv, hm, rfl, rfl⟩
    | some x => exact Or.inr ⟨i, hv, hm, rfl, rfl⟩

end Eos.Containers
