import EosModel.Restrictions
import EosProofs.Lemmas.Toggle
/-! Helper lemmas for C03: the restriction registers as instances of the generic toggle register. -/
namespace Eos.Restr
open Eos.Toggle

theorem clean_step {μ : Micro} {m : Msg} (hc : μ.Clean) (hw : μ.wf m = true) : (μ.apply m).Clean := by
  intro j hj
  cases m with
  | itemLoaded i c t =>
    simp only [Micro.apply, upd] at hj ⊢
    by_cases h : j = i
    · simp [h] at hj
    · simp only [h, if_false] at hj; exact hc j hj
  | itemUnloaded i =>
    simp only [Micro.apply, upd] at hj ⊢
    simp only [Micro.wf, Bool.and_eq_true, List.isEmpty_iff] at hw
    by_cases h : j = i
    · subst h; exact ⟨hw.1.2, hw.2⟩
    · simp only [h, if_false] at hj; exact hc j hj
  | statesOn i ss =>
    simp only [Micro.apply, upd] at hj ⊢
    simp only [Micro.wf, Bool.and_eq_true] at hw
    by_cases h : j = i
    · subst h; rw [hj] at hw; simp at hw
    · simp only [h, if_false]; exact hc j hj
  | statesOff i ss =>
    simp only [Micro.apply, upd] at hj ⊢
    simp only [Micro.wf] at hw
    by_cases h : j = i
    · subst h; rw [hj] at hw; simp at hw
    · simp only [h, if_false]; exact hc j hj
  | effectsOn i es =>
    simp only [Micro.apply, upd] at hj ⊢
    simp only [Micro.wf, Bool.and_eq_true] at hw
    by_cases h : j = i
    · subst h; rw [hj] at hw; simp at hw
    · simp only [h, if_false]; exact hc j hj
  | effectsOff i es =>
    simp only [Micro.apply, upd] at hj ⊢
    simp only [Micro.wf] at hw
    by_cases h : j = i
    · subst h; rw [hj] at hw; simp at hw
    · simp only [h, if_false]; exact hc j hj

/-- A message changes "what register `r` ought to hold" exactly as the toggle event it projects to,
and that event is well formed. This is where the protocol of `MsgHelper` is used. -/
theorem derived_step (r : RegSpec) {μ : Micro} {m : Msg} (hc : μ.Clean) (hw : μ.wf m = true) :
    derived r (μ.apply m) = applyCur (derived r μ) (r.event (μ.apply m) m) ∧
    (r.event (μ.apply m) m).wf (derived r μ) := by
  obtain ⟨tr, pick⟩ := r
  cases m with
  | itemLoaded i c t =>
    have hd : μ.data i = none := by simpa [Micro.wf] using hw
    have hs := hc i hd
    cases tr with
    | load =>
      refine ⟨?_, by simp [RegSpec.event, Ev.wf, derived, hd]⟩
      funext j
      by_cases h : j = i <;> simp [derived, RegSpec.event, applyCur, upd, Micro.apply, Trigger.flag, h]
    | state s =>
      refine ⟨?_, by simp [RegSpec.event, Ev.wf]⟩
      funext j
      by_cases h : j = i
      · subst h; simp [derived, RegSpec.event, applyCur, Micro.apply, Trigger.flag, hs.1]
      · simp [derived, RegSpec.event, applyCur, upd, Micro.apply, Trigger.flag, h]
    | effect e =>
      refine ⟨?_, by simp [RegSpec.event, Ev.wf]⟩
      funext j
      by_cases h : j = i
      · subst h; simp [derived, RegSpec.event, applyCur, Micro.apply, Trigger.flag, hs.2]
      · simp [derived, RegSpec.event, applyCur, upd, Micro.apply, Trigger.flag, h]
  | itemUnloaded i =>
    simp only [Micro.wf, Bool.and_eq_true, List.isEmpty_iff] at hw
    cases tr with
    | load =>
      refine ⟨?_, by simp [RegSpec.event, Ev.wf]⟩
      funext j
      by_cases h : j = i <;> simp [derived, RegSpec.event, applyCur, upd, Micro.apply, Trigger.flag, h]
    | state s =>
      refine ⟨?_, by simp [RegSpec.event, Ev.wf]⟩
      funext j
      by_cases h : j = i
      · subst h; simp [derived, RegSpec.event, applyCur, Micro.apply, Trigger.flag, hw.1.2]
      · simp [derived, RegSpec.event, applyCur, upd, Micro.apply, Trigger.flag, h]
    | effect e =>
      refine ⟨?_, by simp [RegSpec.event, Ev.wf]⟩
      funext j
      by_cases h : j = i
      · subst h; simp [derived, RegSpec.event, applyCur, Micro.apply, Trigger.flag, hw.2]
      · simp [derived, RegSpec.event, applyCur, upd, Micro.apply, Trigger.flag, h]
  | statesOn i ss =>
    simp only [Micro.wf, Bool.and_eq_true, List.all_eq_true, Bool.not_eq_true'] at hw
    cases tr with
    | load =>
      exact ⟨by funext j; simp [derived, RegSpec.event, applyCur, Micro.apply, Trigger.flag], by simp [RegSpec.event, Ev.wf]⟩
    | effect e =>
      exact ⟨by funext j; simp [derived, RegSpec.event, applyCur, Micro.apply, Trigger.flag], by simp [RegSpec.event, Ev.wf]⟩
    | state s =>
      by_cases hm : s ∈ ss
      · have hn : s ∉ μ.states i := by have := hw.2 s hm; simpa using this
        refine ⟨?_, by simp [RegSpec.event, hm, Ev.wf, derived, Trigger.flag, hn]⟩
        funext j
        by_cases h : j = i
        · subst h; simp [derived, RegSpec.event, applyCur, upd, Micro.apply, Trigger.flag, hm]
        · simp [derived, RegSpec.event, applyCur, upd, Micro.apply, Trigger.flag, hm, h]
      · refine ⟨?_, by simp [RegSpec.event, hm, Ev.wf]⟩
        funext j
        by_cases h : j = i
        · subst h; simp [derived, RegSpec.event, applyCur, upd, Micro.apply, Trigger.flag, hm]
        · simp [derived, RegSpec.event, applyCur, upd, Micro.apply, Trigger.flag, hm, h]
  | statesOff i ss =>
    cases tr with
    | load =>
      exact ⟨by funext j; simp [derived, RegSpec.event, applyCur, Micro.apply, Trigger.flag], by simp [RegSpec.event, Ev.wf]⟩
    | effect e =>
      exact ⟨by funext j; simp [derived, RegSpec.event, applyCur, Micro.apply, Trigger.flag], by simp [RegSpec.event, Ev.wf]⟩
    | state s =>
      by_cases hm : s ∈ ss
      · refine ⟨?_, by simp [RegSpec.event, hm, Ev.wf]⟩
        funext j
        by_cases h : j = i
        · subst h; simp [derived, RegSpec.event, applyCur, upd, Micro.apply, Trigger.flag, hm]
        · simp [derived, RegSpec.event, applyCur, upd, Micro.apply, Trigger.flag, hm, h]
      · refine ⟨?_, by simp [RegSpec.event, hm, Ev.wf]⟩
        funext j
        by_cases h : j = i
        · subst h; simp [derived, RegSpec.event, applyCur, upd, Micro.apply, Trigger.flag, hm]
        · simp [derived, RegSpec.event, applyCur, upd, Micro.apply, Trigger.flag, hm, h]
  | effectsOn i es =>
    simp only [Micro.wf, Bool.and_eq_true, List.all_eq_true, Bool.not_eq_true'] at hw
    cases tr with
    | load =>
      exact ⟨by funext j; simp [derived, RegSpec.event, applyCur, Micro.apply, Trigger.flag], by simp [RegSpec.event, Ev.wf]⟩
    | state s =>
      exact ⟨by funext j; simp [derived, RegSpec.event, applyCur, Micro.apply, Trigger.flag], by simp [RegSpec.event, Ev.wf]⟩
    | effect e =>
      by_cases hm : e ∈ es
      · have hn : e ∉ μ.running i := by have := hw.2 e hm; simpa using this
        refine ⟨?_, by simp [RegSpec.event, hm, Ev.wf, derived, Trigger.flag, hn]⟩
        funext j
        by_cases h : j = i
        · subst h; simp [derived, RegSpec.event, applyCur, upd, Micro.apply, Trigger.flag, hm]
        · simp [derived, RegSpec.event, applyCur, upd, Micro.apply, Trigger.flag, hm, h]
      · refine ⟨?_, by simp [RegSpec.event, hm, Ev.wf]⟩
        funext j
        by_cases h : j = i
        · subst h; simp [derived, RegSpec.event, applyCur, upd, Micro.apply, Trigger.flag, hm]
        · simp [derived, RegSpec.event, applyCur, upd, Micro.apply, Trigger.flag, hm, h]
  | effectsOff i es =>
    cases tr with
    | load =>
      exact ⟨by funext j; simp [derived, RegSpec.event, applyCur, Micro.apply, Trigger.flag], by simp [RegSpec.event, Ev.wf]⟩
    | state s =>
      exact ⟨by funext j; simp [derived, RegSpec.event, applyCur, Micro.apply, Trigger.flag], by simp [RegSpec.event, Ev.wf]⟩
    | effect e =>
      by_cases hm : e ∈ es
      · refine ⟨?_, by simp [RegSpec.event, hm, Ev.wf]⟩
        funext j
        by_cases h : j = i
        · subst h; simp [derived, RegSpec.event, applyCur, upd, Micro.apply, Trigger.flag, hm]
        · simp [derived, RegSpec.event, applyCur, upd, Micro.apply, Trigger.flag, hm, h]
      · refine ⟨?_, by simp [RegSpec.event, hm, Ev.wf]⟩
        funext j
        by_cases h : j = i
        · subst h; simp [derived, RegSpec.event, applyCur, upd, Micro.apply, Trigger.flag, hm]
        · simp [derived, RegSpec.event, applyCur, upd, Micro.apply, Trigger.flag, hm, h]

/-- Every restriction register holds what the micro-configuration says it ought to. -/
def RegsInv (μ : Micro) (regs : Regs) : Prop := ∀ t, Inv (derived (regSpec t) μ) (regs t)

theorem regsInv_step {μ : Micro} {regs : Regs} {m : Msg} (hc : μ.Clean) (hi : RegsInv μ regs)
    (hw : μ.wf m = true) : RegsInv (μ.apply m) (regs.step (μ.apply m) m) := by
  intro t
  obtain ⟨he, hwf⟩ := derived_step (regSpec t) hc hw
  rw [he]
  exact step_inv _ (hi t) hwf

theorem regsInv_empty : RegsInv {} Regs.empty := by
  intro t
  have : derived (regSpec t) {} = fun _ => none := by
    funext i; simp [derived]
  rw [this]; exact inv_nil

theorem clean_empty : ({} : Micro).Clean := by intro i _; exact ⟨rfl, rfl⟩

end Eos.Restr
