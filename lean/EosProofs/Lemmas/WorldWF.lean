import EosModel.WorldWF
import EosProofs.Lemmas.CalcWorld
/-! Where error outcomes of `valueOf` come from, and rank well-formedness excludes `notWF` (C10). -/
namespace Eos.World
open Eos.Calc

variable {u : Universe} {cfg : Config}

/-! ## Membership facts -/

theorem item?_mem {i : Nat} {c : Item} (h : item? cfg i = some c) : c ∈ cfg.items :=
  List.mem_of_find?_eq_some h

theorem runningEffects_mem {a : Item} {e : Effect} (h : e ∈ runningEffects u cfg a) : e ∈ u.effects := by
  unfold runningEffects at h
  split at h
  · cases h
  · obtain ⟨i, _, hi⟩ := List.mem_filterMap.1 (List.mem_filter.1 h).1
    exact List.mem_of_find?_eq_some hi

/-- The item whose resistance attribute is read (`resistOf` with the carrier named). -/
def carrierOf (cfg : Config) (x : Item) : Option Item :=
  match x.kind with
  | .ship | .drone | .fighter => some x
  | .moduleHigh | .moduleMid | .moduleLow | .rig | .stance | .subsystem => (shipOf cfg x.fit).bind (item? cfg)
  | .charge | .autocharge =>
    (x.parent.bind (item? cfg)).bind fun p =>
      match p.kind with
      | .drone | .fighter => some p
      | .moduleHigh | .moduleMid | .moduleLow => (shipOf cfg p.fit).bind (item? cfg)
      | _ => none
  | _ => none

theorem resistOf_eq (rd : Reader) (e : Effect) (x : Item) :
    resistOf cfg rd e x =
      match e.resistAttr with
      | none => .ok 1
      | some r =>
        if r == 0 then .ok 1 else
        match carrierOf cfg x with
        | none => .ok 1
        | some c => match rd c r with
          | .absent => .ok 1
          | v => v := rfl

theorem bind_item?_mem {o : Option Nat} {c : Item} (h : o.bind (item? cfg) = some c) : c ∈ cfg.items := by
  obtain ⟨i, _, hi⟩ := Option.bind_eq_some_iff.1 h
  exact item?_mem hi

theorem carrierOf_mem {x c : Item} (h : carrierOf cfg x = some c) : c = x ∨ c ∈ cfg.items := by
  unfold carrierOf at h
  split at h
  · cases h; exact Or.inl rfl
  · cases h; exact Or.inl rfl
  · cases h; exact Or.inl rfl
  · exact Or.inr (bind_item?_mem h)
  · exact Or.inr (bind_item?_mem h)
  · exact Or.inr (bind_item?_mem h)
  · exact Or.inr (bind_item?_mem h)
  · exact Or.inr (bind_item?_mem h)
  · exact Or.inr (bind_item?_mem h)
  · obtain ⟨p, hp, h⟩ := Option.bind_eq_some_iff.1 h
    have hpm := bind_item?_mem hp
    split at h
    · cases h; exact Or.inr hpm
    · cases h; exact Or.inr hpm
    · exact Or.inr (bind_item?_mem h)
    · exact Or.inr (bind_item?_mem h)
    · exact Or.inr (bind_item?_mem h)
    · cases h
  · obtain ⟨p, hp, h⟩ := Option.bind_eq_some_iff.1 h
    have hpm := bind_item?_mem hp
    split at h
    · cases h; exact Or.inr hpm
    · cases h; exact Or.inr hpm
    · exact Or.inr (bind_item?_mem h)
    · exact Or.inr (bind_item?_mem h)
    · exact Or.inr (bind_item?_mem h)
    · cases h
  · cases h

/-- `resistOf` yields 1 or what the reader says about the carrier's (non-zero) resistance attribute. -/
theorem resistOf_cases (rd : Reader) (e : Effect) (x : Item) :
    resistOf cfg rd e x = .ok 1 ∨
      ∃ c r, e.resistAttr = some r ∧ r ≠ 0 ∧ (c = x ∨ c ∈ cfg.items) ∧ rd c r = resistOf cfg rd e x := by
  rw [resistOf_eq]
  split
  · exact Or.inl rfl
  · rename_i r hr
    split
    · exact Or.inl rfl
    · rename_i h0
      split
      · exact Or.inl rfl
      · rename_i c hc
        split
        · exact Or.inl rfl
        · exact Or.inr ⟨c, r, by assumption, by simpa using h0, carrierOf_mem hc, rfl⟩

/-! ## What `gatherReads` contains -/

section reads
variable {attr : Int} {e : Effect}

theorem reads_src {m : Modifier} (he : e ∈ u.effects) (hm : m ∈ e.mods) (ht : m.tgtAttr = attr) :
    m.srcAttr ∈ gatherReads u attr := by
  unfold gatherReads
  simp only [List.mem_append, List.mem_flatMap, List.mem_map, List.mem_filter, beq_iff_eq]
  exact Or.inl (Or.inl ⟨e, he, m, ⟨hm, ht⟩, rfl⟩)

theorem reads_resist {r : Int} (he : e ∈ u.effects) (hr : e.resistAttr = some r) (h0 : r ≠ 0)
    (hc : (e.mods.any (·.tgtAttr == attr) || (e.isBuff && u.buffs.any (·.tgtAttr == attr))) = true) :
    r ∈ gatherReads u attr := by
  unfold gatherReads
  refine List.mem_append_left _ (List.mem_append_right _ (List.mem_filterMap.2 ⟨e, he, ?_⟩))
  rw [if_pos hc, hr]; simp [h0]

theorem reads_resist_mod {m : Modifier} {r : Int} (he : e ∈ u.effects) (hm : m ∈ e.mods)
    (ht : m.tgtAttr = attr) (hr : e.resistAttr = some r) (h0 : r ≠ 0) : r ∈ gatherReads u attr :=
  reads_resist he hr h0 (by
    rw [Bool.or_eq_true]; exact Or.inl (List.any_eq_true.2 ⟨m, hm, by simpa using ht⟩))

theorem reads_buff {a : Int} (hany : u.buffs.any (·.tgtAttr == attr) = true) (h : a ∈ buffAttrs) :
    a ∈ gatherReads u attr := by
  unfold gatherReads; rw [if_pos hany]; exact List.mem_append_right _ h

end reads

theorem buffModifiers_src {rd : Reader} {a : Item} {bms : List Modifier}
    (h : buffModifiers u rd a = .ok bms) : ∀ m ∈ bms, m.srcAttr ∈ buffAttrs := by
  unfold buffModifiers at h
  refine foldlM_except_inv (fun acc => ∀ m ∈ acc, m.srcAttr ∈ buffAttrs) _ _ [] bms
    (fun _ hm => by cases hm) ?_ h
  intro acc p acc' hp hacc hf
  split at hf
  · cases hf
    intro m hm
    rcases List.mem_append.1 hm with hm | hm
    · exact hacc m hm
    · obtain ⟨bt, _, rfl⟩ := List.mem_map.1 hm
      simp only [List.mem_cons, List.not_mem_nil, or_false] at hp
      rcases hp with rfl | rfl | rfl | rfl <;> simp [buffAttrs]
  · cases hf; exact hacc
  · cases hf

theorem buffModifiers_err_src {rd : Reader} {a : Item} {w : Val} (h : buffModifiers u rd a = .error w) :
    ∃ p ∈ buffAttrs, rd a p = w := by
  unfold buffModifiers at h
  refine foldlM_except_err (fun w => ∃ p ∈ buffAttrs, rd a p = w) _ _ [] w ?_ h
  intro acc p e hp hf
  split at hf
  · cases hf
  · cases hf
  · cases hf
    refine ⟨p.1, ?_, rfl⟩
    simp only [List.mem_cons, List.not_mem_nil, or_false] at hp
    rcases hp with rfl | rfl | rfl | rfl <;> simp [buffAttrs]

/-! ## Error outcomes are values the reader returned -/

/-- `w` is what the reader returned for some configured item (or `x`) at an id in `ids`. -/
def ReadAt (cfg : Config) (rd : Reader) (x : Item) (ids : List Int) (w : Val) : Prop :=
  ∃ y a, rd y a = w ∧ (y = x ∨ y ∈ cfg.items) ∧ a ∈ ids

theorem ReadAt.mono {rd : Reader} {x : Item} {ids ids' : List Int} {w : Val} (h : ∀ a ∈ ids, a ∈ ids') :
    ReadAt cfg rd x ids w → ReadAt cfg rd x ids' w :=
  fun ⟨y, a, h1, h2, h3⟩ => ⟨y, a, h1, h2, h a h3⟩

theorem mkMod_err_cases {rd : Reader} {x a : Item} {e : Effect} {imm : Bool} {m : Modifier}
    {acc : List Mod} {w : Val} (h : mkMod cfg rd x a e imm m acc = .error w) :
    rd a m.srcAttr = w ∨
      ∃ c r, e.resistAttr = some r ∧ r ≠ 0 ∧ (c = x ∨ c ∈ cfg.items) ∧ rd c r = w := by
  unfold mkMod at h
  split at h
  · cases h
  · split at h
    · cases h
    · cases h
      rename_i hno
      rcases resistOf_cases (cfg := cfg) rd e x with h1 | h1
      · exact absurd h1 (hno 1)
      · exact Or.inr h1
  · cases h; exact Or.inl rfl

theorem mods_fold_readAt {rd : Reader} {x a : Item} {e : Effect} {imm : Bool} {ids : List Int}
    (l : List Modifier) (ha : a ∈ cfg.items) (hsrc : ∀ m ∈ l, m.srcAttr ∈ ids)
    (hres : ∀ m ∈ l, ∀ r, e.resistAttr = some r → r ≠ 0 → r ∈ ids)
    (acc : List Mod) (w : Val)
    (h : l.foldlM (fun acc m => mkMod cfg rd x a e imm m acc) acc = .error w) : ReadAt cfg rd x ids w := by
  refine foldlM_except_err (ReadAt cfg rd x ids) _ l acc w ?_ h
  intro acc m w hm hf
  rcases mkMod_err_cases hf with h1 | ⟨c, r, hr, h0, hc, h1⟩
  · exact ⟨a, _, h1, Or.inr ha, hsrc m hm⟩
  · exact ⟨c, r, h1, hc, hres m hm r hr h0⟩

theorem effStep_err_readAt {immune : List Int} {rd : Reader} {x : Item} {tx : ItemType} {attr : Int}
    {a : Item} {ta : ItemType} {acc : List Mod} {e : Effect} {w : Val} (ha : a ∈ cfg.items)
    (he : e ∈ u.effects) (h : effStep u cfg immune rd x tx attr a ta acc e = .error w) :
    ReadAt cfg rd x (gatherReads u attr) w := by
  have hmods : ∀ m, m ∈ e.mods → m.tgtAttr = attr → m.srcAttr ∈ gatherReads u attr ∧
      ∀ r, e.resistAttr = some r → r ≠ 0 → r ∈ gatherReads u attr := fun m hm ht =>
    ⟨reads_src he hm ht, fun r hr h0 => reads_resist_mod he hm ht hr h0⟩
  unfold effStep at h
  rcases except_bind_err h with h1 | ⟨acc1, _, h⟩
  · refine mods_fold_readAt _ ha ?_ ?_ _ _ h1 <;> intro m hm <;>
      simp only [List.mem_filter, Bool.and_eq_true, beq_iff_eq] at hm
    · exact (hmods m hm.1 hm.2.1).1
    · exact (hmods m hm.1 hm.2.1).2
  rcases except_bind_err h with h2 | ⟨acc2, _, h⟩
  · refine foldlM_except_err (ReadAt cfg rd x (gatherReads u attr)) _ _ _ _ ?_ h2
    intro acc' tg w' _ hf
    refine mods_fold_readAt _ ha ?_ ?_ _ _ hf <;> intro m hm <;>
      simp only [List.mem_filter, Bool.and_eq_true, beq_iff_eq] at hm
    · exact (hmods m hm.1 hm.2.1.2).1
    · exact (hmods m hm.1 hm.2.1.2).2
  split at h
  · rename_i hb
    rcases except_bind_err h with h3 | ⟨bms, hbm, h⟩
    · split at h3
      · rename_i hany
        obtain ⟨p, hp, hw⟩ := buffModifiers_err_src h3
        exact ⟨a, p, hw, Or.inr ha, reads_buff hany hp⟩
      · cases h3
    · refine foldlM_except_err (ReadAt cfg rd x (gatherReads u attr)) _ _ _ _ ?_ h
      intro acc' tg w' _ hf
      have hl : ∀ m ∈ ((bms ++ e.mods.filter (·.domain == 4)).filter fun m =>
          m.tgtAttr == attr && affectsProjected cfg a m tg x tx),
          (m ∈ e.mods ∧ m.tgtAttr = attr) ∨
          (u.buffs.any (·.tgtAttr == attr) = true ∧ m.srcAttr ∈ buffAttrs) := by
        intro m hm
        simp only [List.mem_filter, List.mem_append, Bool.and_eq_true, beq_iff_eq] at hm
        rcases hm.1 with hmb | hme
        · right
          split at hbm
          · exact ⟨‹_›, buffModifiers_src hbm m hmb⟩
          · cases hbm; cases hmb
        · exact Or.inl ⟨hme.1, hm.2.1⟩
      refine mods_fold_readAt _ ha (fun m hm => ?_) (fun m hm r hr h0 => ?_) _ _ hf
      · rcases hl m hm with h' | h'
        · exact reads_src he h'.1 h'.2
        · exact reads_buff h'.1 h'.2
      · rcases hl m hm with h' | h'
        · exact reads_resist_mod he h'.1 h'.2 hr h0
        · exact reads_resist he hr h0 (by rw [Bool.or_eq_true]; right; simp [hb, h'.1])
  · cases h

/-- An error outcome of `gather` is a value the reader returned for a configured item (or `x`) at an
id in `gatherReads`. -/
theorem gather_err_readAt {immune : List Int} {rd : Reader} {x : Item} {tx : ItemType} {attr : Int}
    {w : Val} (h : gather u cfg immune rd x tx attr = .error w) :
    ReadAt cfg rd x (gatherReads u attr) w := by
  rw [gather_eq] at h
  refine foldlM_except_err (ReadAt cfg rd x (gatherReads u attr)) _ _ [] w ?_ h
  intro acc a w' ha hf
  split at hf
  · cases hf
  · refine foldlM_except_err (ReadAt cfg rd x (gatherReads u attr)) _ _ _ _ ?_ hf
    intro acc' e w'' he hf'
    exact effStep_err_readAt ha (runningEffects_mem he) hf'

theorem capOf_err_readAt {rd : Reader} {x : Item} {am : AttrMeta} {w : Val}
    (h : capOf rd x am = .error w) : ReadAt cfg rd x am.maxAttr.toList w := by
  unfold capOf at h
  split at h
  · cases h
  · rename_i mx hmx
    split at h
    · cases h
    · cases h
    · cases h; exact ⟨x, mx, rfl, Or.inl rfl, by simp [hmx]⟩

/-- Every outcome of `valueOf`: a value, absent, something the reader returned at a readable id, or a
division by zero inside `calculate`. -/
theorem valueOf_cases (immune limited : List Int) (pen : Nat → Rat) (rd : Reader) (x : Item) (am : AttrMeta) :
    (∃ v, valueOf u cfg immune limited pen rd x am = .ok v) ∨
    valueOf u cfg immune limited pen rd x am = .absent ∨
    ReadAt cfg rd x (readable u am) (valueOf u cfg immune limited pen rd x am) ∨
    (valueOf u cfg immune limited pen rd x am = .divZero ∧
      ∃ tx b mods cap, itemType? u cfg x = some tx ∧ baseOf tx am = some b ∧
        gather u cfg immune rd x tx am.id = .ok mods ∧ capOf rd x am = .ok cap ∧
        calculate pen am.stackable am.hig b mods cap (limited.contains am.id) = .error .divZero) := by
  rw [valueOf_eq]
  split
  · cases x.level <;> simp
  · cases ht : itemType? u cfg x with
    | none => simp
    | some tx =>
      cases hb : baseOf tx am with
      | none => simp [hb]
      | some b =>
        cases hg : gather u cfg immune rd x tx am.id with
        | error w =>
          simp only [hb, hg]
          exact Or.inr (Or.inr (Or.inl ((gather_err_readAt hg).mono fun a ha => List.mem_append_right _ ha)))
        | ok mods =>
          cases hc : capOf rd x am with
          | error w =>
            simp only [hb, hg]
            exact Or.inr (Or.inr (Or.inl ((capOf_err_readAt hc).mono fun a ha => List.mem_append_left _ ha)))
          | ok cap =>
            cases hcalc : calculate pen am.stackable am.hig b mods cap (limited.contains am.id) with
            | ok v => simp only [hb, hg, hcalc]; exact Or.inl ⟨v, rfl⟩
            | error e =>
              cases e
              simp only [hb, hg, hcalc]
              exact Or.inr (Or.inr (Or.inr ⟨trivial, tx, b, mods, cap, rfl, hb, hg, rfl, hcalc⟩))

/-! ## `rankWF` and its propositional reading -/

theorem rankWFAux_iff (u : Universe) (rest : List AttrMeta) : ∀ pre : List Int,
    rankWFAux u pre rest = true ↔
      ∀ p am post, rest = p ++ am :: post → ∀ a ∈ readable u am, (attrMeta? u a).isSome = true →
        a ∈ p.map (·.id) ∨ a ∈ pre := by
  induction rest with
  | nil => intro pre; simp [rankWFAux]
  | cons am rest ih =>
    intro pre
    simp only [rankWFAux, Bool.and_eq_true, List.all_eq_true, Bool.or_eq_true, Option.isNone_iff_eq_none,
      List.contains_iff_mem, ih]
    constructor
    · rintro ⟨h1, h2⟩ p am' post hsplit a ha hsome
      cases p with
      | nil =>
        simp only [List.nil_append, List.cons.injEq] at hsplit
        obtain ⟨rfl, _⟩ := hsplit
        rcases h1 a ha with h | h
        · rw [h] at hsome; cases hsome
        · exact Or.inr h
      | cons q p' =>
        simp only [List.cons_append, List.cons.injEq] at hsplit
        obtain ⟨rfl, hrest⟩ := hsplit
        rcases h2 p' am' post hrest a ha hsome with h | h
        · exact Or.inl (by simp [h])
        · rcases List.mem_cons.1 h with rfl | h
          · exact Or.inl (by simp)
          · exact Or.inr h
    · intro h
      refine ⟨fun a ha => ?_, fun p am' post hrest a ha hsome => ?_⟩
      · cases hm : attrMeta? u a with
        | none => exact Or.inl rfl
        | some m =>
          rcases h [] am rest rfl a ha (by simp [hm]) with h' | h'
          · cases h'
          · exact Or.inr h'
      · rcases h (am :: p) am' post (by simp [hrest]) a ha hsome with h' | h'
        · simp only [List.map_cons, List.mem_cons] at h'
          rcases h' with rfl | h'
          · exact Or.inr (by simp)
          · exact Or.inl h'
        · exact Or.inr (List.mem_cons_of_mem _ h')

theorem rankWF_iff (u : Universe) : rankWF u = true ↔ RankWF u := by
  unfold rankWF RankWF
  rw [rankWFAux_iff]
  constructor
  · intro h pre am post hs a ha hsome
    rcases h pre am post hs a ha hsome with h' | h'
    · exact h'
    · cases h'
  · intro h pre am post hs a ha hsome
    exact Or.inl (h pre am post hs a ha hsome)

/-! ## The table never holds `notWF` for a rank-well-formed universe -/

/-- Table invariant after the attributes `ids` have been processed. -/
def TableOK (cfg : Config) (ids : List Int) (t : Table) : Prop :=
  (∀ entry ∈ t, entry.2 ≠ .notWF) ∧ ∀ x ∈ cfg.items, ∀ a ∈ ids, ∃ entry ∈ t, entry.1 = (x.id, a)

theorem get_mem {t : Table} {i : Nat} {a : Int} {v : Val} (h : t.get i a = some v) :
    ∃ entry ∈ t, entry.2 = v := by
  unfold Table.get at h
  obtain ⟨entry, he, rfl⟩ := Option.map_eq_some_iff.1 h
  exact ⟨entry, List.mem_of_find?_eq_some he, rfl⟩

theorem get_none {t : Table} {i : Nat} {a : Int} (h : t.get i a = none) :
    ∀ entry ∈ t, entry.1 ≠ (i, a) := by
  unfold Table.get at h
  rw [Option.map_eq_none_iff, List.find?_eq_none] at h
  intro entry he heq
  exact h entry he (by simp [heq])

theorem readDep_ne_notWF {ids : List Int} {t : Table} (hok : TableOK cfg ids t) {y : Item}
    (hy : y ∈ cfg.items) {a : Int} (ha : (attrMeta? u a).isSome = true → a ∈ ids) :
    readDep u t y a ≠ .notWF := by
  unfold readDep
  split
  · cases y.level <;> simp
  · cases hg : t.get y.id a with
    | some v =>
      obtain ⟨entry, he, rfl⟩ := get_mem hg
      exact hok.1 entry he
    | none =>
      dsimp only
      split
      · rename_i hsome
        obtain ⟨entry, he, hk⟩ := hok.2 y hy a (ha hsome)
        exact absurd hk (get_none hg entry he)
      · simp

theorem valueOf_ne_notWF {ids : List Int} {t : Table} (hok : TableOK cfg ids t)
    (immune limited : List Int) (pen : Nat → Rat) {x : Item} (hx : x ∈ cfg.items) (am : AttrMeta)
    (hwf : ∀ a ∈ readable u am, (attrMeta? u a).isSome = true → a ∈ ids) :
    valueOf u cfg immune limited pen (readDep u t) x am ≠ .notWF := by
  intro hv
  rcases valueOf_cases (u := u) (cfg := cfg) immune limited pen (readDep u t) x am with
    ⟨v, h⟩ | h | ⟨y, a, hr, hy, ha⟩ | ⟨h, _⟩
  · rw [hv] at h; cases h
  · rw [hv] at h; cases h
  · rw [hv] at hr
    have hy' : y ∈ cfg.items := hy.elim (fun e => e ▸ hx) id
    exact readDep_ne_notWF hok hy' (hwf a ha) hr
  · rw [hv] at h; cases h

theorem evalAll_step {ids : List Int} {t : Table} (hok : TableOK cfg ids t)
    (immune limited : List Int) (pen : Nat → Rat) (am : AttrMeta)
    (hwf : ∀ a ∈ readable u am, (attrMeta? u a).isSome = true → a ∈ ids) :
    TableOK cfg (ids ++ [am.id])
      (t ++ cfg.items.map fun x => ((x.id, am.id), valueOf u cfg immune limited pen (readDep u t) x am)) := by
  refine ⟨fun entry he => ?_, fun x hx a ha => ?_⟩
  · rcases List.mem_append.1 he with he | he
    · exact hok.1 entry he
    · obtain ⟨x, hx, rfl⟩ := List.mem_map.1 he
      exact valueOf_ne_notWF hok immune limited pen hx am hwf
  · rcases List.mem_append.1 ha with ha | ha
    · obtain ⟨entry, he, hk⟩ := hok.2 x hx a ha
      exact ⟨entry, List.mem_append_left _ he, hk⟩
    · rw [List.mem_singleton] at ha; subst ha
      exact ⟨_, List.mem_append_right _ (List.mem_map.2 ⟨x, hx, rfl⟩), rfl⟩

theorem evalAll_fold (hwf : RankWF u) (immune limited : List Int) (pen : Nat → Rat) (rest : List AttrMeta) :
    ∀ (pre : List AttrMeta) (t : Table), u.attrs = pre ++ rest → TableOK cfg (pre.map (·.id)) t →
      TableOK cfg ((pre ++ rest).map (·.id))
        (rest.foldl (fun t am => t ++ cfg.items.map fun x =>
          ((x.id, am.id), valueOf u cfg immune limited pen (readDep u t) x am)) t) := by
  induction rest with
  | nil => intro pre t _ hok; simpa using hok
  | cons am rest ih =>
    intro pre t hsplit hok
    rw [List.foldl_cons]
    have hstep := evalAll_step hok immune limited pen am (hwf pre am rest hsplit)
    have := ih (pre ++ [am]) _ (by simp [hsplit]) (by simpa using hstep)
    simpa using this

theorem evalAll_tableOK (hwf : RankWF u) (immune limited : List Int) (pen : Nat → Rat) :
    TableOK cfg (u.attrs.map (·.id)) (evalAll u cfg immune limited pen) := by
  have := evalAll_fold (cfg := cfg) hwf immune limited pen u.attrs [] [] rfl
    ⟨fun _ h => (by cases h), fun _ _ _ h => (by cases h)⟩
  simpa [evalAll] using this

theorem read_ne_notWF {t : Table} (h : ∀ entry ∈ t, entry.2 ≠ .notWF) (x : Item) (a : Int) :
    read t x a ≠ .notWF := by
  unfold read
  split
  · cases x.level <;> simp
  · cases hg : t.get x.id a with
    | some v => obtain ⟨entry, he, rfl⟩ := get_mem hg; simpa using h entry he
    | none => simp

/-! ## Example universes for non-vacuity

`wfUniverse`: attribute 10 feeds 20 (`post_mul`), 20 feeds 30 (`mod_add`), 30 is capped by 10; listed
in rank order.  `cyclicUniverse`: 10 feeds 20 and 20 feeds 10.  Both carried by one ship type whose
passive effect 1000 holds the (item, self) modifiers. -/
def wfUniverse : Universe :=
  { attrs := [⟨10, none, none, true, true⟩, ⟨20, none, none, true, true⟩, ⟨30, some 10, none, true, true⟩],
    effects := [⟨1000, 0, none, none, false,
      [⟨1, 1, none, 20, 6, 1, none, 10⟩, ⟨1, 1, none, 30, 4, 1, none, 20⟩]⟩],
    types := [⟨1, none, some 6, none, [(10, 3), (20, 2), (30, 1)], [1000], []⟩] }
def cyclicUniverse : Universe :=
  { attrs := [⟨10, none, none, true, true⟩, ⟨20, none, none, true, true⟩],
    effects := [⟨1000, 0, none, none, false,
      [⟨1, 1, none, 20, 6, 1, none, 10⟩, ⟨1, 1, none, 10, 6, 1, none, 20⟩]⟩],
    types := [⟨1, none, some 6, none, [(10, 3), (20, 2)], [1000], []⟩] }
def oneShipConfig : Config :=
  { hasSource := true, fits := [⟨0, some 1, none, none⟩],
    items := [⟨1, .ship, 1, 0, 1, none, none, none, []⟩] }

end Eos.World
