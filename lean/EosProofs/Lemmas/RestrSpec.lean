import EosModel.Restrictions
import EosProofs.Lemmas.RestrRegisters
/-! Helper lemmas for C03, specification side: registers derived from a snapshot, permutation
invariance of the per-restriction checks, skipping, and liveness of the reported keys. -/
namespace Eos.Restr
open Eos.Toggle

/-! ### registers derived from the snapshot hold what the agreeing micro-configuration says -/
theorem mem_ids_of_mem {cfg : Snapshot} {it : Item} (h : it ∈ cfg.items) : it.id ∈ cfg.ids :=
  List.mem_map_of_mem h

theorem filterMap_keys_sublist {α β : Type} (key : α → Nat) (f : α → Option (Nat × β))
    (hk : ∀ a p, f a = some p → p.1 = key a) :
    ∀ l : List α, ((l.filterMap f).map (·.1)).Sublist (l.map key)
  | [] => by simp
  | a :: l => by
    have ih := filterMap_keys_sublist key f hk l
    cases hfa : f a with
    | none => simpa [List.filterMap_cons, hfa] using ih.cons _
    | some p =>
      have := hk a p hfa
      simp only [List.filterMap_cons, hfa, List.map_cons, this]
      exact ih.cons_cons _

theorem flagCfg_eq {μ : Micro} {cfg : Snapshot} (h : Agree μ cfg) {it : Item} (hit : it ∈ cfg.items)
    (hl : it.td.isSome) (tr : Trigger) : tr.flag μ it.id = tr.flagCfg it := by
  cases tr with
  | load => rfl
  | state s => simp only [Trigger.flag, Trigger.flagCfg]; exact h.states it hit hl s
  | effect e => simp only [Trigger.flag, Trigger.flagCfg]; exact h.running it hit hl e

theorem derivedCfg_inv (r : RegSpec) {μ : Micro} {cfg : Snapshot} (h : Agree μ cfg) :
    Inv (derived r μ) (derivedCfg r cfg) := by
  constructor
  · intro i d
    simp only [derivedCfg, List.mem_filterMap]
    constructor
    · rintro ⟨it, hit, hf⟩
      by_cases hfl : r.trigger.flagCfg it = true
      · simp only [hfl, if_true, Option.map_eq_some_iff, Prod.mk.injEq] at hf
        obtain ⟨d', hd', hid, hdd⟩ := hf
        subst hid; subst hdd
        have hl : it.td.isSome := by
          cases htd : it.td with
          | none => simp [htd] at hd'
          | some t => rfl
        simp only [derived, flagCfg_eq h hit hl, hfl, if_true, h.data it hit]
        cases htd : it.td with
        | none => simp [htd] at hl
        | some t => simpa [htd] using hd'
      · simp [hfl] at hf
    · intro hd
      have hne : μ.data i ≠ none := by
        intro hn; simp [derived, hn] at hd
      obtain ⟨it, hit, hid⟩ := List.mem_map.1 (h.live i hne)
      subst hid
      refine ⟨it, hit, ?_⟩
      have hdat := h.data it hit
      cases htd : it.td with
      | none => rw [htd] at hdat; simp [derived, hdat] at hd
      | some t =>
        have hl : it.td.isSome := by simp [htd]
        rw [htd] at hdat
        simp only [derived, flagCfg_eq h hit hl, hdat] at hd
        by_cases hfl : r.trigger.flagCfg it = true
        · simp only [hfl, if_true] at hd ⊢
          simpa [htd] using hd
        · simp [hfl] at hd
  · have hs := filterMap_keys_sublist (β := Payload) Item.id
      (fun it => if r.trigger.flagCfg it then (it.td.bind (r.pick it.cls)).map (fun d => (it.id, d)) else none)
      (by
        intro a p hp
        by_cases hfl : r.trigger.flagCfg a = true
        · simp only [hfl, if_true, Option.map_eq_some_iff] at hp
          obtain ⟨d, _, rfl⟩ := hp; rfl
        · simp [hfl] at hp) cfg.items
    exact hs.nodup h.nodup

theorem regs_perm {μ : Micro} {cfg : Snapshot} {regs : Regs} (hi : RegsInv μ regs) (h : Agree μ cfg) (t : RType) :
    (regs t).Perm (derivedCfg (regSpec t) cfg) :=
  perm_of_inv (hi t) (derivedCfg_inv (regSpec t) h)

/-! ### the checks do not depend on the order in which a register is walked -/
theorem check_perm (t : RType) (cfg : Snapshot) {x y : Reg Payload} (h : x.Perm y) : check t cfg x = check t cfg y := by
  funext e
  have hc : ∀ p : Nat × Payload → Bool, x.countP p = y.countP p := fun p => h.countP_eq p
  cases t <;> simp only [check, hc]

theorem ruleReg_perm (t : RType) {x y : Reg Payload} (h : x.Perm y) (cfg : Snapshot) :
    (ruleReg t x cfg).Perm (ruleReg t y cfg) := by
  unfold ruleReg
  split
  · exact List.Perm.refl _
  · rw [check_perm t cfg h]; exact h.filterMap _

theorem rule_perm (t : RType) {x y : Reg Payload} (h : x.Perm y) (cfg : Snapshot) :
    (rule t x cfg).Perm (rule t y cfg) := by
  unfold rule
  split
  · exact ruleReg_perm t h cfg
  · exact List.Perm.refl _

theorem flatMap_perm_pointwise {α β : Type} (f g : α → List β) :
    ∀ l : List α, (∀ a ∈ l, (f a).Perm (g a)) → (l.flatMap f).Perm (l.flatMap g)
  | [], _ => by simp
  | a :: l, h => by
    simp only [List.flatMap_cons]
    exact (h a (List.mem_cons_self)).append
      (flatMap_perm_pointwise f g l fun b hb => h b (List.mem_cons_of_mem _ hb))

theorem validateWith_perm {f g : RType → Tainted} (h : ∀ t, (f t).Perm (g t)) (skip : List RType) :
    (validateWith f skip).Perm (validateWith g skip) := by
  unfold validateWith
  exact flatMap_perm_pointwise _ _ _ fun t _ => (h t).map _

/-! ### skipping only omits -/
theorem flatMap_filter_tag {α β : Type} (p : α → Bool) (g : α → List β) (tag : β → α)
    (hg : ∀ a b, b ∈ g a → tag b = a) :
    ∀ l : List α, (l.filter p).flatMap g = (l.flatMap g).filter (fun b => p (tag b))
  | [] => by simp
  | a :: l => by
    have ih := flatMap_filter_tag p g tag hg l
    have hall : ∀ b ∈ g a, p (tag b) = p a := fun b hb => by rw [hg a b hb]
    by_cases hp : p a = true
    · have : (g a).filter (fun b => p (tag b)) = g a :=
        List.filter_eq_self.2 fun b hb => by rw [hall b hb]; exact hp
      simp [hp, List.flatMap_cons, List.filter_append, this, ih]
    · have hp' : p a = false := by simpa using hp
      have : (g a).filter (fun b => p (tag b)) = [] :=
        List.filter_eq_nil_iff.2 fun b hb => by rw [hall b hb, hp']; simp
      simp [hp', List.flatMap_cons, List.filter_append, this, ih]

theorem validateWith_skip (f : RType → Tainted) (skip : List RType) :
    validateWith f skip = (validateWith f []).filter (fun e => !skip.contains e.2.1) := by
  unfold validateWith
  have h0 : RType.all.filter (fun t => !([] : List RType).contains t) = RType.all := by
    apply List.filter_eq_self.2; intro t _; simp
  rw [h0]
  exact flatMap_filter_tag (fun t => !skip.contains t) (fun t => (f t).map fun e => (e.1, t, e.2)) (·.2.1)
    (by intro a b hb; obtain ⟨e, _, rfl⟩ := List.mem_map.1 hb; rfl) RType.all

theorem mem_validateWith {f : RType → Tainted} {skip : List RType} {e : Nat × RType × ErrData}
    (h : e ∈ validateWith f skip) : (e.1, e.2.2) ∈ f e.2.1 ∧ skip.contains e.2.1 = false := by
  unfold validateWith at h
  obtain ⟨t, ht, he⟩ := List.mem_flatMap.1 h
  obtain ⟨x, hx, rfl⟩ := List.mem_map.1 he
  have := (List.mem_filter.1 ht).2
  exact ⟨hx, by simpa using this⟩

/-! ### every reported key is an item on the fit -/
theorem item?_mem {cfg : Snapshot} {i : Nat} {it : Item} (h : cfg.item? i = some it) : it ∈ cfg.items ∧ it.id = i := by
  unfold Snapshot.item? at h
  exact ⟨List.mem_of_find?_eq_some h, by simpa using List.find?_some h⟩

/-- Keys of a register derived from the snapshot are ids of item records. -/
theorem derivedCfg_key {r : RegSpec} {cfg : Snapshot} {e : Nat × Payload} (h : e ∈ derivedCfg r cfg) :
    e.1 ∈ cfg.ids := by
  simp only [derivedCfg, List.mem_filterMap] at h
  obtain ⟨it, hit, hf⟩ := h
  by_cases hfl : r.trigger.flagCfg it = true
  · simp only [hfl, if_true, Option.map_eq_some_iff] at hf
    obtain ⟨d, _, rfl⟩ := hf
    exact mem_ids_of_mem hit
  · simp [hfl] at hf

theorem withTd_key {cfg : Snapshot} {i : Nat} {f : Item → TypeData → Option ErrData} {p : Nat × ErrData}
    (h : withTd cfg i f = some p) : p.1 = i := by
  unfold withTd at h
  split at h
  · split at h
    · obtain ⟨d, _, rfl⟩ := Option.map_eq_some_iff.1 h; rfl
    · cases h; rfl
  · cases h; rfl

end Eos.Restr
