import EosModel.GatherTableSpec
import EosProofs.Lemmas.CalcWorld
/-! `gather` walks over the items that run an effect only (`gatherVia`, `activeItems`); a world with exactly one
running effect; the fleet-boost branch for a modifier-less buff effect (`boostFold`).  For all arguments: these
are the general facts that let the regenerated resistance / fleet-boost tables be checked by evaluating the small
forms while the property theorems speak about `Eos.World.gather` itself. -/
namespace Eos.AffectsSpec
open Eos.World Eos.Calc

theorem forced_eq {α β : Type} (l : List α) : ∀ (k : List α → β), forced l k = k l := by
  induction l with
  | nil => intro k; rfl
  | cons x xs ih => intro k; simp only [forced, ih]

theorem mkModG_eq (cfg : Config) (rd : Reader) (x a : Item) (e : Effect) (imm : Bool) (m : Modifier)
    (acc : List Mod) : mkModG cfg rd x a e imm m acc = mkMod cfg rd x a e imm m acc := rfl

theorem effStepG_eq (u : Universe) (cfg : Config) (immune : List Int) (rd : Reader) (x : Item) (tx : ItemType)
    (attr : Int) (a : Item) (ta : ItemType) (acc : List Mod) (e : Effect) :
    effStepG u cfg immune rd x tx attr a ta acc e = effStep u cfg immune rd x tx attr a ta acc e := rfl

theorem foldlM_nil_ok {α β : Type} (f : β → α → Except Val β) (init : β) :
    ([] : List α).foldlM f init = .ok init := rfl

/-- `gather` only depends on the items that run an effect. -/
theorem gather_eq_via (u : Universe) (cfg : Config) (immune : List Int) (rd : Reader) (x : Item) (tx : ItemType)
    (attr : Int) :
    gather u cfg immune rd x tx attr = gatherVia u cfg immune rd x tx attr (activeItems u cfg) := by
  rw [gather_eq]
  unfold gatherVia activeItems
  have hG : ∀ (b : Item) (ta : ItemType), effStepG u cfg immune rd x tx attr b ta =
      effStep u cfg immune rd x tx attr b ta := fun _ _ => rfl
  simp only [hG]
  generalize ([] : List Mod) = init
  induction cfg.items generalizing init with
  | nil => rfl
  | cons b l ih =>
    rw [List.foldlM_cons, List.filterMap_cons]
    cases hty : itemType? u cfg b with
    | none => simp only [bind, Except.bind]; exact ih init
    | some ta =>
      cases hre : runningEffects u cfg b with
      | nil =>
        simp only [List.isEmpty_nil, if_true, foldlM_nil_ok, bind, Except.bind]
        exact ih init
      | cons e0 es =>
        simp only [List.isEmpty_cons, Bool.false_eq_true, if_false]
        rw [List.foldlM_cons (l := List.filterMap _ l)]
        simp only [bind, Except.bind]
        cases (e0 :: es).foldlM (effStep u cfg immune rd x tx attr b ta) init with
        | error w => rfl
        | ok acc' => exact ih acc'

/-- A world in which exactly one item runs exactly one effect. -/
theorem gather_of_sole {u : Universe} {cfg : Config} {b : Item} {ta : ItemType} {e : Effect}
    (h : activeItems u cfg = [(b, ta, [e])]) (immune : List Int) (rd : Reader) (x : Item) (tx : ItemType)
    (attr : Int) :
    gather u cfg immune rd x tx attr = effStepG u cfg immune rd x tx attr b ta [] e := by
  rw [gather_eq_via, h]
  simp only [gatherVia, List.foldlM_cons, List.foldlM_nil, bind_pure]

theorem foldlM_keep {α β : Type} (l : List α) (init : β) :
    l.foldlM (fun (acc : β) (_ : α) => (Except.ok acc : Except Val β)) init = Except.ok init := by
  induction l with
  | nil => rfl
  | cons a l ih => rw [List.foldlM_cons]; exact ih

/-- The fleet-boost branch: a buff effect without modifiers of its own, for an attribute some template targets. -/
theorem effStepG_buff {u : Universe} {cfg : Config} {immune : List Int} {rd : Reader} {x : Item} {tx : ItemType}
    {attr : Int} {a : Item} {ta : ItemType} {e : Effect} {bms : List Modifier}
    (hm : e.mods = []) (hb : e.isBuff = true) (hany : u.buffs.any (·.tgtAttr == attr) = true)
    (hbm : buffModifiers u rd a = .ok bms) :
    effStepG u cfg immune rd x tx attr a ta [] e =
      boostFold cfg rd x tx attr a e (immOf immune ta) bms (boostTargets cfg a.fit) := by
  unfold effStepG boostFold immOf
  simp only [hm, hb, hany, hbm, List.filter_nil, List.foldlM_nil, if_true, List.append_nil, bind, Except.bind,
    pure, Except.pure, foldlM_keep]

end Eos.AffectsSpec
