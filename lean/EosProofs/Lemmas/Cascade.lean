/-! generic DFS invalidation cascade (mirrors force_recalc + AttrsValueChanged recursion). -/
namespace Eos.Cascade
variable {N V : Type} [DecidableEq N]

abbrev Cache (N V : Type) := N → Option V

def drop (K : Cache N V) (n : N) : Cache N V := fun x => if x = n then none else K x

mutual
/-- `n` was just dropped; visit its reverse dependencies. -/
def casc (rdeps : N → List N) : Nat → Cache N V → N → Cache N V
  | 0, K, _ => K
  | fuel+1, K, n => (rdeps n).foldl (fun K t => visit rdeps fuel K t) K
/-- force_recalc: only a cached entry is dropped and propagated. -/
def visit (rdeps : N → List N) : Nat → Cache N V → N → Cache N V
  | fuel, K, t => if K t = none then K else casc rdeps fuel (drop K t) t
end

def Closed (rdeps : N → List N) (K0 K' : Cache N V) : Prop :=
  ∀ m, K0 m ≠ none → K' m = none → ∀ x, x ∈ rdeps m → K' x = none
def Mono (K K' : Cache N V) : Prop := ∀ x, K' x ≠ none → K x ≠ none

omit [DecidableEq N] in
theorem mono_none {K K' : Cache N V} (h : Mono K K') {x : N} (hx : K x = none) : K' x = none := by
  cases hk : K' x with
  | none => rfl
  | some v => exact absurd hx (h x (by rw [hk]; exact Option.some_ne_none v))

theorem drop_mono (K : Cache N V) (n : N) : Mono K (drop K n) := by
  intro x h; unfold drop at h
  by_cases hx : x = n
  · simp [hx] at h
  · simpa [hx] using h

theorem casc_spec (rdeps : N → List N) (rank : N → Nat) (B : Nat)
    (hr : ∀ m x, x ∈ rdeps m → rank m < rank x) (hB : ∀ x, rank x < B) :
    ∀ fuel (K : Cache N V) (n : N), B - rank n ≤ fuel →
      Mono K (casc rdeps fuel K n) ∧
      (∀ x, x ∈ rdeps n → casc rdeps fuel K n x = none) ∧
      Closed rdeps K (casc rdeps fuel K n) := by
  intro fuel
  induction fuel with
  | zero => intro K n hf; have := hB n; omega
  | succ fuel ih =>
    intro K n hf
    -- contract of `visit` for members of rdeps n
    have hv : ∀ (K : Cache N V) (t : N), t ∈ rdeps n → Mono K (visit rdeps fuel K t) ∧ visit rdeps fuel K t t = none ∧
        Closed rdeps K (visit rdeps fuel K t) := by
      intro K t ht
      have hrank : B - rank t ≤ fuel := by have := hr n t ht; omega
      unfold visit
      by_cases hk : K t = none
      · rw [if_pos hk]
        refine ⟨fun _ h => h, hk, ?_⟩
        intro m h1 h2; exact absurd h2 h1
      · rw [if_neg hk]
        obtain ⟨a, b, c⟩ := ih (drop K t) t hrank
        have dm := drop_mono K t
        refine ⟨fun x h => dm x (a x h), ?_, ?_⟩
        · exact mono_none a (by simp [drop])
        · intro m hm1 hm2 x hx
          by_cases hmt : m = t
          · subst hmt; exact b x hx
          · exact c m (by simpa [drop, hmt] using hm1) hm2 x hx
    -- the fold only visits members of rdeps n: use a membership-restricted version of fold_spec
    have key : ∀ (l : List N) (K1 : Cache N V), (∀ t, t ∈ l → t ∈ rdeps n) →
        Mono K1 (l.foldl (fun K t => visit rdeps fuel K t) K1) ∧
        (∀ x, x ∈ l → l.foldl (fun K t => visit rdeps fuel K t) K1 x = none) ∧
        Closed rdeps K1 (l.foldl (fun K t => visit rdeps fuel K t) K1) := by
      intro l
      induction l with
      | nil =>
        intro K1 _
        refine ⟨fun _ h => h, ?_, ?_⟩
        · intro x hx; cases hx
        · intro m h1 h2; exact absurd h2 h1
      | cons t l ihl =>
        intro K1 hmem
        simp only [List.foldl_cons]
        obtain ⟨m1, t1, c1⟩ := hv K1 t (hmem t List.mem_cons_self)
        obtain ⟨m2, n2, c2⟩ := ihl (visit rdeps fuel K1 t) (fun u hu => hmem u (List.mem_cons_of_mem _ hu))
        refine ⟨fun x h => m1 x (m2 x h), ?_, ?_⟩
        · intro x hx
          cases hx with
          | head => exact mono_none m2 t1
          | tail _ h => exact n2 x h
        · intro m hm1 hm2 x hx
          by_cases hmid : visit rdeps fuel K1 t m = none
          · exact mono_none m2 (c1 m hm1 hmid x hx)
          · exact c2 m hmid hm2 x hx
    simp only [casc]
    exact key (rdeps n) K (fun _ h => h)

end Eos.Cascade
