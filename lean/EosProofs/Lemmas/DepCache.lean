/-! generic dependency-cache lemma (no Mathlib). -/

namespace Eos.DepCache

variable {N V : Type}

/-- A dependency graph with local evaluation. -/
structure Graph (N V : Type) where
  deps : N → List N
  eval : N → (N → Option V) → Option V
  rank : N → Nat
  acyclic : ∀ n m, m ∈ deps n → rank m < rank n
  eval_local : ∀ n (f g : N → Option V), (∀ m, m ∈ deps n → f m = g m) → eval n f = eval n g

/-- Fuelled from-scratch evaluation. -/
def specF (G : Graph N V) : Nat → N → Option V
  | 0, _ => none
  | k+1, n => G.eval n (specF G k)

/-- Enough fuel: result independent of extra fuel. -/
theorem specF_stable (G : Graph N V) : ∀ (k : Nat) (n : N), G.rank n < k →
    ∀ k', G.rank n < k' → specF G k n = specF G k' n := by
  intro k
  induction k with
  | zero => intro n h; exact absurd h (Nat.not_lt_zero _)
  | succ k ih =>
    intro n hn k' hk'
    cases k' with
    | zero => exact absurd hk' (Nat.not_lt_zero _)
    | succ k' =>
      simp only [specF]
      apply G.eval_local
      intro m hm
      have hr := G.acyclic n m hm
      exact ih m (by omega) k' (by omega)

def spec (G : Graph N V) (n : N) : Option V := specF G (G.rank n + 1) n

theorem spec_unfold (G : Graph N V) (n : N) : spec G n = G.eval n (spec G) := by
  show specF G (G.rank n + 1) n = G.eval n (spec G)
  show G.eval n (specF G (G.rank n)) = G.eval n (spec G)
  apply G.eval_local
  intro m hm
  have hr := G.acyclic n m hm
  show specF G (G.rank n) m = specF G (G.rank m + 1) m
  exact specF_stable G _ m hr _ (Nat.lt_succ_self _)

/-- Cache invariant: coherent and dependency-closed. -/
structure Inv (G : Graph N V) (K : N → Option V) : Prop where
  coh : ∀ n v, K n = some v → spec G n = some v
  closed : ∀ n, K n ≠ none → ∀ m, m ∈ G.deps n → spec G m ≠ none → K m ≠ none

/-- Restrict a cache to the complement of a removed set. -/
def restrict (K : N → Option V) (R : N → Bool) : N → Option V :=
  fun n => if R n then none else K n

/-- Main lemma: configuration change G → G' with removal set R. -/
theorem inv_after_change (G G' : Graph N V) (K : N → Option V) (R : N → Bool)
    (hinv : Inv G K)
    -- (1) every cached node whose local evaluation or deps changed is removed
    (hsame : ∀ n, K n ≠ none → R n = false →
        G'.deps n = G.deps n ∧ ∀ f, G'.eval n f = G.eval n f)
    -- (2) R is upward closed among cached nodes (cascade completeness)
    (hup : ∀ n, K n ≠ none → R n = false → ∀ m, m ∈ G'.deps n → R m = false)
    -- (3) absence of a dependency is stable for surviving nodes
    (habs : ∀ n, K n ≠ none → R n = false → ∀ m, m ∈ G'.deps n →
        (spec G m = none ↔ spec G' m = none)) :
    Inv G' (restrict K R) := by
  -- key: surviving cached nodes keep their spec value
  have key : ∀ (r : Nat) (n : N), G'.rank n < r → K n ≠ none → R n = false →
      spec G' n = spec G n := by
    intro r
    induction r with
    | zero => intro n h; exact absurd h (Nat.not_lt_zero _)
    | succ r ih =>
      intro n hr hK hR
      obtain ⟨hd, he⟩ := hsame n hK hR
      rw [spec_unfold G' n, spec_unfold G n, he]
      apply G.eval_local
      intro m hm
      have hm' : m ∈ G'.deps n := by rw [hd]; exact hm
      have hRm := hup n hK hR m hm'
      cases hs : spec G m with
      | none => exact (habs n hK hR m hm').mp hs
      | some w =>
        have hKm : K m ≠ none := hinv.closed n hK m hm (by rw [hs]; exact Option.some_ne_none w)
        have := ih m (by have := G'.acyclic n m hm'; omega) hKm hRm
        rw [this, hs]
  constructor
  · intro n v h
    unfold restrict at h
    cases hR : R n with
    | true => simp [hR] at h
    | false =>
      simp [hR] at h
      have hK : K n ≠ none := by rw [h]; exact Option.some_ne_none v
      rw [key _ n (Nat.lt_succ_self _) hK hR]
      exact hinv.coh n v h
  · intro n hn m hm hs
    unfold restrict at hn ⊢
    cases hR : R n with
    | true => simp [hR] at hn
    | false =>
      simp [hR] at hn
      have hRm := hup n hn hR m hm
      simp [hRm]
      obtain ⟨hd, _⟩ := hsame n hn hR
      have hsG : spec G m ≠ none := fun h0 => hs ((habs n hn hR m hm).mp h0)
      exact hinv.closed n hn m (by rw [← hd]; exact hm) hsG

/-- Reading a node adds coherent entries: adding `n ↦ spec G n` for a set closed
under deps preserves the invariant. -/
theorem inv_after_fill (G : Graph N V) (K : N → Option V) (S : N → Bool)
    (hinv : Inv G K)
    (hS : ∀ n, S n = true → ∀ m, m ∈ G.deps n → spec G m ≠ none → (S m = true ∨ K m ≠ none)) :
    Inv G (fun n => if S n then spec G n else K n) := by
  constructor
  · intro n v h
    by_cases hs : S n = true
    · simpa [hs] using h
    · simp [hs] at h; exact hinv.coh n v h
  · intro n hn m hm hsm
    by_cases hs : S n = true
    · rcases hS n hs m hm hsm with h | h
      · simp [h]; exact hsm
      · by_cases hm' : S m = true
        · simp [hm']; exact hsm
        · simp [hm']; exact h
    · simp [hs] at hn
      have := hinv.closed n hn m hm hsm
      by_cases hm' : S m = true
      · simp [hm']; exact hsm
      · simp [hm']; exact this

end Eos.DepCache
