import EosProofs.Lemmas.GatherVia
import EosProofs.Lemmas.FleetTable0
import EosProofs.Lemmas.FleetTable1
import EosProofs.Lemmas.FleetTable2
import EosProofs.Lemmas.FleetTable3
import EosProofs.Lemmas.FleetTable4
import EosProofs.Lemmas.FleetTable5
import EosGen.FleetTable
/-! C13: the per-block kernel checks of the regenerated fleet-boost table put together, and translated from the
forms the kernel evaluated (`specGatherBoostFast`: buff modifiers and boost targets evaluated once per row) to
statements about `Eos.World.boostTargets`, `buffModifiers` and `gather` themselves (`gather_of_sole`,
`effStepG_buff`, `forced_eq`). -/
namespace Eos.C13
open Eos.AffectsSpec Eos.World EosGen.FleetTable

/-- What the row check establishes for a case. -/
def FleetGood (c : FleetCase) : Prop :=
  c.x.typeId = c.tx.id ∧ specBoost c = c.obs ∧ specBoost c = c.obsInc ∧ specBuffModifier c = true ∧
    specGatherBoost c = some (if c.obs then some 1 else none)

theorem fleetRow_good {r : FleetRow} (h : r.ok = true) : ∀ c ∈ r.cases, FleetGood c := by
  unfold FleetRow.ok at h
  split at h
  · rename_i b ta e a hact haff
    simp only [Bool.and_eq_true] at h
    obtain ⟨⟨⟨hm, hb⟩, hany⟩, h⟩ := h
    have hm' : e.mods = [] := List.isEmpty_iff.1 hm
    split at h
    · rename_i v bms bmsA hv hbms hbmsA
      simp only [Bool.and_eq_true, forced_eq] at h
      obtain ⟨hcont, h⟩ := h
      intro c hc
      have hc' := List.all_eq_true.1 h c hc
      simp only [FleetRow.cases, haff] at hc
      obtain ⟨p, _, rfl⟩ := List.mem_map.1 hc
      simp only [fleetCaseOkFast, Bool.and_eq_true, beq_iff_eq, specGatherBoostFast] at hc'
      obtain ⟨⟨hal, hsel⟩, hg⟩ := hc'
      refine ⟨hal, ?_, ?_, ?_, ?_⟩
      · simp only [specBoost]
        split at hsel <;> rename_i hs <;> simp_all
      · simp only [specBoost]
        split at hsel <;> rename_i hs <;> simp_all
      · simp only [specBuffModifier, hbmsA, hcont]
      · simp only [specGatherBoost, hv, gather_of_sole hact]
        rw [effStepG_buff hm' hb hany hbms]
        exact hg
    · cases h
  · cases h

theorem fleetBlockOk_spec {rows : List FleetRow} {n k : Nat} (h : fleetBlockOk rows n k = true) :
    (∀ c ∈ fleetCasesOf rows, FleetGood c) ∧ (fleetCasesOf rows).length = n ∧
      (fleetCasesOf rows).countP (·.obs) = k := by
  simp only [fleetBlockOk, Bool.and_eq_true, List.all_eq_true, beq_iff_eq] at h
  refine ⟨fun c hc => ?_, h.1.1.2, h.1.2⟩
  obtain ⟨r, hr, hcr⟩ := List.mem_flatMap.1 hc
  exact fleetRow_good (h.1.1.1 r hr) c hcr

theorem fleet_cases_good : ∀ c ∈ fleetCases, FleetGood c := by
  intro c hc
  simp only [fleetCases, List.mem_flatMap] at hc
  obtain ⟨b, hb, hcb⟩ := hc
  simp only [fleetBlocks, List.mem_cons, List.not_mem_nil, or_false] at hb
  rcases hb with rfl | rfl | rfl | rfl | rfl | rfl
  · exact (fleetBlockOk_spec fleet_block0_ok).1 c hcb
  · exact (fleetBlockOk_spec fleet_block1_ok).1 c hcb
  · exact (fleetBlockOk_spec fleet_block2_ok).1 c hcb
  · exact (fleetBlockOk_spec fleet_block3_ok).1 c hcb
  · exact (fleetBlockOk_spec fleet_block4_ok).1 c hcb
  · exact (fleetBlockOk_spec fleet_block5_ok).1 c hcb

theorem fleet_counts : fleetCases.length = fleetCaseCount ∧ fleetCases.countP (·.obs) = fleetBoostedCount := by
  simp only [fleetCases, fleetBlocks, List.flatMap_cons, List.flatMap_nil, List.length_append, List.length_nil,
    List.countP_append, List.countP_nil,
    (fleetBlockOk_spec fleet_block0_ok).2.1, (fleetBlockOk_spec fleet_block0_ok).2.2,
    (fleetBlockOk_spec fleet_block1_ok).2.1, (fleetBlockOk_spec fleet_block1_ok).2.2,
    (fleetBlockOk_spec fleet_block2_ok).2.1, (fleetBlockOk_spec fleet_block2_ok).2.2,
    (fleetBlockOk_spec fleet_block3_ok).2.1, (fleetBlockOk_spec fleet_block3_ok).2.2,
    (fleetBlockOk_spec fleet_block4_ok).2.1, (fleetBlockOk_spec fleet_block4_ok).2.2,
    (fleetBlockOk_spec fleet_block5_ok).2.1, (fleetBlockOk_spec fleet_block5_ok).2.2]
  decide

end Eos.C13
