import EosModel.WorldMicro
import EosProofs.Lemmas.Cascade
import EosProofs.Lemmas.WorldWF
/-! The invalidation cascade of the message-level model (`Micro.casc` / `visit` / `visitAll`) is the generic
depth-first cascade of `Lemmas/Cascade.lean` over `rdeps := Micro.rdeps u cfg d`; with the fuel `fuelOf u` it
only removes entries (and never alters one), leaves every visited node uncached and its removal set is
closed under `rdeps`.

Rank growth along `rdeps` is needed only between nodes whose attribute has metadata (every cached node has);
it is derived from `RankWF u` and unique attribute ids, *not* from acyclicity of `deps`: the enumerators of
`_revise_regular_attr_dependents` over-approximate (an affectee without carrier reads no resistance
attribute, an unloaded item reads nothing), so `x ∈ rdeps m → m ∈ deps x` does not hold. -/

namespace Eos.Cascade
variable {N V : Type} [DecidableEq N]

/-- `K'` arises from `K` by removing entries (surviving entries keep their value). -/
def Sub (K K' : Cache N V) : Prop := ∀ x, K' x = none ∨ K' x = K x

omit [DecidableEq N] in
theorem Sub.mono {K K' : Cache N V} (h : Sub K K') : Mono K K' := by
  intro x hx
  rcases h x with h0 | h0
  · exact absurd h0 hx
  · rw [← h0]; exact hx

omit [DecidableEq N] in
theorem Sub.refl (K : Cache N V) : Sub K K := fun _ => Or.inr rfl

omit [DecidableEq N] in
theorem Sub.trans {K K' K'' : Cache N V} (h : Sub K K') (h' : Sub K' K'') : Sub K K'' := by
  intro x
  rcases h' x with h0 | h0
  · exact Or.inl h0
  · rcases h x with h1 | h1
    · exact Or.inl (h0.trans h1)
    · exact Or.inr (h0.trans h1)

theorem drop_sub (K : Cache N V) (n : N) : Sub K (drop K n) := by
  intro x; unfold drop
  by_cases hx : x = n
  · exact Or.inl (by simp [hx])
  · exact Or.inr (by simp [hx])

/-- What one `visit` (or a whole fold of them) guarantees. -/
def Contract (rdeps : N → List N) (K K' : Cache N V) (l : List N) : Prop :=
  Sub K K' ∧ (∀ x, x ∈ l → K' x = none) ∧ Closed rdeps K K'

omit [DecidableEq N] in
/-- A fold of visits satisfies the contract when each visit does (for caches satisfying an invariant `I`
that removal preserves). -/
theorem fold_contract (rdeps : N → List N) (v : Cache N V → N → Cache N V) (I : Cache N V → Prop)
    (hI : ∀ K K', I K → Sub K K' → I K') :
    ∀ (l : List N) (K1 : Cache N V), I K1 →
      (∀ K t, I K → t ∈ l → Contract rdeps K (v K t) [t]) →
      Contract rdeps K1 (l.foldl v K1) l := by
  intro l
  induction l with
  | nil =>
    intro K1 _ _
    exact ⟨Sub.refl _, fun x hx => (by cases hx), fun m h1 h2 => absurd h2 h1⟩
  | cons t l ih =>
    intro K1 h1 hv
    simp only [List.foldl_cons]
    obtain ⟨s1, t1, c1⟩ := hv K1 t h1 List.mem_cons_self
    obtain ⟨s2, n2, c2⟩ := ih (v K1 t) (hI _ _ h1 s1) (fun K u hK hu => hv K u hK (List.mem_cons_of_mem _ hu))
    refine ⟨s1.trans s2, ?_, ?_⟩
    · intro x hx
      cases hx with
      | head => exact mono_none s2.mono (t1 t (List.mem_singleton.2 rfl))
      | tail _ h => exact n2 x h
    · intro m hm1 hm2 x hx
      by_cases hmid : v K1 t m = none
      · exact mono_none s2.mono (c1 m hm1 hmid x hx)
      · exact c2 m hmid hm2 x hx

variable (rdeps : N → List N) (rank : N → Nat) (B : Nat) (P : N → Prop)

/-- `visit` with enough fuel for the node it is applied to.  Rank growth along `rdeps` and the rank bound
are required only between nodes satisfying `P`, and every cached node has to satisfy `P`. -/
theorem visit_spec (hr : ∀ m x, P m → P x → x ∈ rdeps m → rank m < rank x) (hB : ∀ x, P x → rank x < B) :
    ∀ fuel (K : Cache N V) (t : N), (∀ x, K x ≠ none → P x) → (K t ≠ none → B - rank t ≤ fuel) →
      Contract rdeps K (visit rdeps fuel K t) [t] := by
  intro fuel
  induction fuel with
  | zero =>
    intro K t hP hf
    unfold visit
    by_cases hk : K t = none
    · rw [if_pos hk]
      exact ⟨Sub.refl _, fun x hx => by rw [List.mem_singleton.1 hx]; exact hk, fun m h1 h2 => absurd h2 h1⟩
    · have := hB t (hP t hk); have := hf hk; omega
  | succ fuel ih =>
    intro K t hP hf
    unfold visit
    by_cases hk : K t = none
    · rw [if_pos hk]
      exact ⟨Sub.refl _, fun x hx => by rw [List.mem_singleton.1 hx]; exact hk, fun m h1 h2 => absurd h2 h1⟩
    · rw [if_neg hk]
      have hPt := hP t hk
      have hft := hf hk
      have hd := drop_sub K t
      have hPd : ∀ x, drop K t x ≠ none → P x := fun x hx => hP x (hd.mono x hx)
      simp only [casc]
      obtain ⟨a, b, c⟩ := fold_contract rdeps (fun K x => visit rdeps fuel K x) (fun K => ∀ x, K x ≠ none → P x)
        (fun K K' h hs x hx => h x (hs.mono x hx)) (rdeps t) (drop K t) hPd
        (fun K2 x hK2 hx => ih K2 x hK2 (fun hc => by have := hr t x hPt (hK2 x hc) hx; omega))
      refine ⟨hd.trans a, ?_, ?_⟩
      · intro x hx; rw [List.mem_singleton.1 hx]; exact mono_none a.mono (by simp [drop])
      · intro m hm1 hm2 x hx
        by_cases hmt : m = t
        · subst hmt; exact b x hx
        · exact c m (by simpa [drop, hmt] using hm1) hm2 x hx

/-- A list of visits with fuel `≥ B`. -/
theorem visitAll_spec (hr : ∀ m x, P m → P x → x ∈ rdeps m → rank m < rank x) (hB : ∀ x, P x → rank x < B)
    (fuel : Nat) (hf : B ≤ fuel) (K : Cache N V) (hP : ∀ x, K x ≠ none → P x) (l : List N) :
    Contract rdeps K (l.foldl (fun K t => visit rdeps fuel K t) K) l :=
  fold_contract rdeps (fun K x => visit rdeps fuel K x) (fun K => ∀ x, K x ≠ none → P x)
    (fun _ _ h hs x hx => h x (hs.mono x hx)) l K hP
    (fun K2 x hK2 _ => visit_spec rdeps rank B P hr hB fuel K2 x hK2 (fun _ => by omega))

/-- The cascade started at an arbitrary node (cached or not, `P` or not) with fuel `> B`. -/
theorem casc_top_spec (hr : ∀ m x, P m → P x → x ∈ rdeps m → rank m < rank x) (hB : ∀ x, P x → rank x < B)
    (fuel : Nat) (hf : B < fuel) (K : Cache N V) (hP : ∀ x, K x ≠ none → P x) (n : N) :
    Contract rdeps K (casc rdeps fuel K n) (rdeps n) := by
  cases fuel with
  | zero => omega
  | succ fuel =>
    simp only [casc]
    exact visitAll_spec rdeps rank B P hr hB fuel (by omega) K hP (rdeps n)

end Eos.Cascade

namespace Eos.Micro.L
open Eos.World

variable (u : Universe) (cfg : Config) (d : Dyn)

/-- The micro cascade is the generic one. -/
theorem casc_visit_eq : ∀ fuel : Nat,
    (∀ (K : Cache) (n : Node), casc u cfg d fuel K n = Cascade.casc (rdeps u cfg d) fuel K n) ∧
    (∀ (K : Cache) (n : Node), visit u cfg d fuel K n = Cascade.visit (rdeps u cfg d) fuel K n) := by
  intro fuel
  induction fuel with
  | zero =>
    have h1 : ∀ (K : Cache) (n : Node), casc u cfg d 0 K n = Cascade.casc (rdeps u cfg d) 0 K n := by
      intro K n; rw [casc]; simp only [Cascade.casc]
    refine ⟨h1, fun K n => ?_⟩
    rw [visit, Cascade.visit, h1]; rfl
  | succ f ih =>
    have h1 : ∀ (K : Cache) (n : Node),
        casc u cfg d (f + 1) K n = Cascade.casc (rdeps u cfg d) (f + 1) K n := by
      intro K n; rw [casc]; simp only [Cascade.casc]
      congr 1; funext K t; exact ih.2 K t
    refine ⟨h1, fun K n => ?_⟩
    rw [visit, Cascade.visit, h1]; rfl

theorem visitAll_eq (fuel : Nat) (K : Cache) (l : List Node) :
    visitAll u cfg d fuel K l = l.foldl (fun K t => Cascade.visit (rdeps u cfg d) fuel K t) K := by
  unfold visitAll
  congr 1; funext K t; exact (casc_visit_eq u cfg d fuel).2 K t

/-! ## Ranks -/

/-- Attribute ids of the universe are unique. -/
def UniqueAttrs : Prop := (u.attrs.map (·.id)).Nodup

/-- The attribute of a node has metadata (true of every cached node). -/
def HasMeta (n : Node) : Prop := (attrMeta? u n.2).isSome = true

variable {u cfg d}

/-- A map that is injective on a list (no duplicates among the images). -/
theorem eq_of_nodup_map {α β : Type} (f : α → β) : ∀ {l : List α}, (l.map f).Nodup →
    ∀ {a b : α}, a ∈ l → b ∈ l → f a = f b → a = b := by
  intro l
  induction l with
  | nil => intro _ a b ha; cases ha
  | cons c l ih =>
    intro hn a b ha hb hab
    simp only [List.map_cons, List.nodup_cons, List.mem_map, not_exists, not_and] at hn
    rcases List.mem_cons.1 ha with rfl | ha' <;> rcases List.mem_cons.1 hb with rfl | hb'
    · rfl
    · exact absurd hab.symm (hn.1 b hb')
    · exact absurd hab (hn.1 a ha')
    · exact ih hn.2 ha' hb' hab

theorem attrMeta?_id {a : Int} {am : AttrMeta} (h : attrMeta? u a = some am) : am.id = a := by
  have := List.find?_some h; simpa using this

theorem attrMeta?_mem {a : Int} {am : AttrMeta} (h : attrMeta? u a = some am) : am ∈ u.attrs :=
  List.mem_of_find?_eq_some h

theorem rankOf_lt_of_meta {n : Node} (h : HasMeta u n) : rankOf u n < u.attrs.length := by
  unfold HasMeta at h
  obtain ⟨am, ham⟩ := Option.isSome_iff_exists.1 h
  have hmem : n.2 ∈ u.attrs.map (·.id) := List.mem_map.2 ⟨am, attrMeta?_mem ham, attrMeta?_id ham⟩
  have := List.idxOf_lt_length_of_mem hmem
  simpa [rankOf] using this

/-- `a` is listed before the (first) entry with id `b` when `a` is readable by that entry. -/
theorem rank_lt_of_readable (hwf : RankWF u) {a b : Int} {amb : AttrMeta} (hb : attrMeta? u b = some amb)
    (ha : (attrMeta? u a).isSome = true) (hr : a ∈ readable u amb) :
    (u.attrs.map (·.id)).idxOf a < (u.attrs.map (·.id)).idxOf b := by
  obtain ⟨hid, pre, post, hsplit, hpre⟩ := List.find?_eq_some_iff_append.1 hb
  have hmem := hwf pre amb post hsplit a hr ha
  have hbid : amb.id = b := by simpa using hid
  have hbnot : b ∉ pre.map (·.id) := by
    intro hc
    obtain ⟨q, hq, hqid⟩ := List.mem_map.1 hc
    have := hpre q hq
    simp [hqid] at this
  rw [hsplit]
  simp only [List.map_append, List.map_cons]
  rw [List.idxOf_append, List.idxOf_append, if_pos hmem, if_neg hbnot, hbid]
  have := List.idxOf_lt_length_of_mem hmem
  omega

theorem typeEffects_mem {a : Item} {e : Effect} (h : e ∈ typeEffects u d a) : e ∈ u.effects := by
  unfold typeEffects at h
  split at h
  · cases h
  · obtain ⟨i, _, hi⟩ := List.mem_filterMap.1 h
    exact List.mem_of_find?_eq_some hi

theorem mem_running {a : Item} {e : Effect} :
    e ∈ running u d a ↔ e ∈ typeEffects u d a ∧ d.on a.id e.id = true := by
  unfold running; exact List.mem_filter

theorem mem_localSpecs {a : Item} {s : Spec} :
    s ∈ localSpecs u d a ↔ ∃ e ∈ running u d a, ∃ m ∈ e.mods, m.domain ≠ 4 ∧ s = ⟨a, e, m, none⟩ := by
  unfold localSpecs
  simp only [List.mem_flatMap, List.mem_map, List.mem_filter, bne_iff_ne, ne_eq]
  constructor
  · rintro ⟨e, he, m, ⟨hm, hd⟩, rfl⟩; exact ⟨e, he, m, hm, hd, rfl⟩
  · rintro ⟨e, he, m, hm, hd, rfl⟩; exact ⟨e, he, m, ⟨hm, hd⟩, rfl⟩

theorem bspecOK_iff {m : Modifier} :
    bspecOK u m = true ↔
      m.domain = 4 ∧ m.srcAttr ∈ buffAttrs ∧ u.buffs.any (·.tgtAttr == m.tgtAttr) = true := by
  unfold bspecOK
  simp only [Bool.and_eq_true, beq_iff_eq, List.contains_iff_mem, and_assoc]

/-- A projected modifier of `(a, e)` is a target-domain modifier of `e` or, for a fleet-boost effect, a
well-formed registered warfare-buff modifier. -/
theorem mem_projMods {a : Item} {e : Effect} {m : Modifier} :
    m ∈ projMods u d a e ↔
      (m ∈ e.mods ∧ m.domain = 4) ∨ (e.isBuff = true ∧ m ∈ d.bspecs a.id e.id ∧ bspecOK u m = true) := by
  unfold projMods
  rw [List.mem_append]
  refine or_congr (by simp [List.mem_filter]) ?_
  cases hb : e.isBuff
  · simp
  · simp [List.mem_filter]

theorem projMods_domain {a : Item} {e : Effect} {m : Modifier} (h : m ∈ projMods u d a e) : m.domain = 4 := by
  rcases mem_projMods.1 h with h | h
  · exact h.2
  · exact (bspecOK_iff.1 h.2.2).1

theorem mem_projSpecs {a : Item} {s : Spec} :
    s ∈ projSpecs u cfg d a ↔ ∃ e ∈ running u d a, (e.category = 2 ∨ e.isBuff = true) ∧
      ∃ t ∈ targetsOf cfg d a e, ∃ m ∈ projMods u d a e, s = ⟨a, e, m, some t⟩ := by
  unfold projSpecs
  simp only [List.mem_flatMap]
  constructor
  · rintro ⟨e, he, hs⟩
    split at hs
    · rename_i hc
      simp only [List.mem_flatMap, List.mem_map] at hs
      obtain ⟨t, ht, m, hm, rfl⟩ := hs
      exact ⟨e, he, by simpa using hc, t, ht, m, hm, rfl⟩
    · cases hs
  · rintro ⟨e, he, hc, t, ht, m, hm, rfl⟩
    refine ⟨e, he, ?_⟩
    rw [if_pos (by simpa using hc)]
    simp only [List.mem_flatMap, List.mem_map]
    exact ⟨t, ht, m, hm, rfl⟩

/-- Every registered spec is carried by the item it is listed for and belongs to one of its running effects
(an effect of the universe); its modifier is one of the effect's own or — for a projected spec of a
fleet-boost effect — a well-formed warfare-buff modifier. -/
theorem spec_wf {a : Item} {s : Spec} (h : s ∈ localSpecs u d a ++ projSpecs u cfg d a) :
    s.a = a ∧ s.e ∈ running u d a ∧ s.e ∈ u.effects ∧
      (s.m ∈ s.e.mods ∨ (s.e.isBuff = true ∧ bspecOK u s.m = true)) := by
  rcases List.mem_append.1 h with h | h
  · obtain ⟨e, he, m, hm, _, rfl⟩ := mem_localSpecs.1 h
    exact ⟨rfl, he, typeEffects_mem (mem_running.1 he).1, Or.inl hm⟩
  · obtain ⟨e, he, _, t, _, m, hm, rfl⟩ := mem_projSpecs.1 h
    refine ⟨rfl, he, typeEffects_mem (mem_running.1 he).1, ?_⟩
    rcases mem_projMods.1 hm with hm | hm
    · exact Or.inl hm.1
    · exact Or.inr ⟨hm.1, hm.2.2⟩

/-- The three shapes of a reverse dependency. -/
theorem rdeps_cases {m x : Node} (h : x ∈ rdeps u cfg d m) :
    ∃ y, item? cfg m.1 = some y ∧
      ((∃ am ∈ u.attrs, am.maxAttr = some m.2 ∧ x = (y.id, am.id)) ∨
       (∃ s ∈ localSpecs u d y ++ projSpecs u cfg d y, s.m.srcAttr = m.2 ∧
          ∃ x' ∈ affectees u cfg d s, x = (x'.id, s.m.tgtAttr)) ∨
       (∃ a ∈ cfg.items, ∃ s ∈ projSpecs u cfg d a, s.e.resistAttr = some m.2 ∧ m.2 ≠ 0 ∧
          (∃ t ∈ targetsOf cfg d a s.e,
            t.id = y.id ∨ (y.kind.ownerModifiable = true ∧ shipOf cfg y.fit = some t.id)) ∧
          ∃ x' ∈ affectees u cfg d s, x = (x'.id, s.m.tgtAttr))) := by
  unfold rdeps at h
  split at h
  · cases h
  · rename_i y hy
    refine ⟨y, hy, ?_⟩
    rcases List.mem_append.1 h with h | h
    · rcases List.mem_append.1 h with h | h
      · obtain ⟨am, ham, rfl⟩ := List.mem_map.1 h
        obtain ⟨hmem, hmx⟩ := List.mem_filter.1 ham
        exact Or.inl ⟨am, hmem, by simpa using hmx, rfl⟩
      · obtain ⟨s, hs, hx⟩ := List.mem_flatMap.1 h
        obtain ⟨hmem, hsrc⟩ := List.mem_filter.1 hs
        obtain ⟨x', hx', rfl⟩ := List.mem_map.1 hx
        exact Or.inr (Or.inl ⟨s, hmem, by simpa using hsrc, x', hx', rfl⟩)
    · obtain ⟨a, ha, h⟩ := List.mem_flatMap.1 h
      obtain ⟨s, hs, hx⟩ := List.mem_flatMap.1 h
      obtain ⟨hmem, hcond⟩ := List.mem_filter.1 hs
      obtain ⟨x', hx', rfl⟩ := List.mem_map.1 hx
      simp only [Bool.and_eq_true, beq_iff_eq, bne_iff_ne, ne_eq, List.any_eq_true, Bool.or_eq_true] at hcond
      obtain ⟨⟨hr, h0⟩, t, ht, htg⟩ := hcond
      exact Or.inr (Or.inr ⟨a, ha, s, hmem, hr, h0, ⟨t, ht, htg⟩, x', hx', rfl⟩)

/-- Ranks grow along `rdeps` between attributes that have metadata. -/
theorem rdeps_rank (hwf : RankWF u) (hun : UniqueAttrs u) {m x : Node} (hm : HasMeta u m) (hx : HasMeta u x)
    (h : x ∈ rdeps u cfg d m) : rankOf u m < rankOf u x := by
  obtain ⟨amx, hamx⟩ := Option.isSome_iff_exists.1 hx
  unfold rankOf
  apply rank_lt_of_readable hwf hamx hm
  obtain ⟨y, _, hcase⟩ := rdeps_cases h
  rcases hcase with ⟨am, ham, hmx, rfl⟩ | ⟨s, hs, hsrc, x', _, rfl⟩ | ⟨a, _, s, hs, hr, h0, _, x', _, rfl⟩
  · -- cap: by uniqueness of ids `am` is the metadata found for its id
    have hid : amx.id = am.id := attrMeta?_id hamx
    have : amx = am := eq_of_nodup_map _ hun (attrMeta?_mem hamx) ham hid
    subst this
    unfold readable; rw [hmx]; simp
  · obtain ⟨_, _, he, hmod⟩ := spec_wf hs
    unfold readable; rw [← hsrc]
    refine List.mem_append_right _ ?_
    rcases hmod with hmod | ⟨_, hok⟩
    · exact reads_src (u := u) he hmod (attrMeta?_id hamx).symm
    · obtain ⟨_, hsrcb, hany⟩ := bspecOK_iff.1 hok
      exact reads_buff (by rw [attrMeta?_id hamx]; exact hany) hsrcb
  · obtain ⟨_, _, he, hmod⟩ := spec_wf (List.mem_append_right _ hs)
    unfold readable
    refine List.mem_append_right _ ?_
    rcases hmod with hmod | ⟨hb, hok⟩
    · exact reads_resist_mod (u := u) he hmod (attrMeta?_id hamx).symm hr h0
    · obtain ⟨_, _, hany⟩ := bspecOK_iff.1 hok
      refine reads_resist he hr h0 ?_
      rw [attrMeta?_id hamx, hb, hany]; simp

variable (u cfg d)

/-- `visitAll` with the model's fuel: removes only, leaves every listed node uncached, closed under `rdeps`. -/
theorem visitAll_contract (hwf : RankWF u) (hun : UniqueAttrs u) (K : Cache) (hK : ∀ x, K x ≠ none → HasMeta u x)
    (l : List Node) :
    Cascade.Contract (rdeps u cfg d) K (visitAll u cfg d (fuelOf u) K l) l := by
  rw [visitAll_eq]
  exact Cascade.visitAll_spec (rdeps u cfg d) (rankOf u) u.attrs.length (HasMeta u)
    (fun m x hm hx h => rdeps_rank hwf hun hm hx h) (fun x hx => rankOf_lt_of_meta hx)
    (fuelOf u) (by unfold fuelOf; omega) K hK l

/-- `casc` from an arbitrary start node with the model's fuel. -/
theorem casc_contract (hwf : RankWF u) (hun : UniqueAttrs u) (K : Cache) (hK : ∀ x, K x ≠ none → HasMeta u x)
    (n : Node) :
    Cascade.Contract (rdeps u cfg d) K (casc u cfg d (fuelOf u) K n) (rdeps u cfg d n) := by
  rw [(casc_visit_eq u cfg d (fuelOf u)).1]
  exact Cascade.casc_top_spec (rdeps u cfg d) (rankOf u) u.attrs.length (HasMeta u)
    (fun m x hm hx h => rdeps_rank hwf hun hm hx h) (fun x hx => rankOf_lt_of_meta hx)
    (fuelOf u) (by unfold fuelOf; omega) K hK n

end Eos.Micro.L
