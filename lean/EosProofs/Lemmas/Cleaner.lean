import EosModel.Cleaner
/-! Helper lemmas for C18: the fuelled restore loop computes the least closed set, and the
    "first row wins" pass keeps exactly the first row of every key. -/
namespace Eos.Cleaner

/-! ## filters of one list -/

theorem length_filter_le_of_imp {α : Type} {p q : α → Bool} :
    ∀ {l : List α}, (∀ x ∈ l, p x = true → q x = true) → (l.filter p).length ≤ (l.filter q).length
  | [], _ => by simp
  | a :: l, h => by
    have ih := length_filter_le_of_imp (l := l) (fun x hx => h x (List.mem_cons_of_mem _ hx))
    have ha := h a List.mem_cons_self
    cases hp : p a <;> cases hq : q a <;> simp_all <;> omega

theorem filter_eq_of_imp_of_length_eq {α : Type} {p q : α → Bool} :
    ∀ {l : List α}, (∀ x ∈ l, p x = true → q x = true) →
      (l.filter p).length = (l.filter q).length → l.filter p = l.filter q
  | [], _, _ => by simp
  | a :: l, h, hl => by
    have h' : ∀ x ∈ l, p x = true → q x = true := fun x hx => h x (List.mem_cons_of_mem _ hx)
    have hle := length_filter_le_of_imp h'
    have ha := h a List.mem_cons_self
    cases hp : p a <;> cases hq : q a <;> simp_all
    · exact filter_eq_of_imp_of_length_eq h' hl
    · omega
    · exact filter_eq_of_imp_of_length_eq h' hl

section Generic
variable {ρ : Type} [DecidableEq ρ] {aux ref : ρ → ρ → Bool} {strong : ρ → Bool} {rows : List ρ}

/-- Reachability from the strong rows through the two restore rules, inside `rows`. -/
inductive Reach (aux ref : ρ → ρ → Bool) (strong : ρ → Bool) (rows : List ρ) : ρ → Prop
  | base {r} : r ∈ rows → strong r = true → Reach aux ref strong rows r
  | aux {s r} : Reach aux ref strong rows s → r ∈ rows → aux s r = true → Reach aux ref strong rows r
  | ref {s r} : Reach aux ref strong rows s → r ∈ rows → ref s r = true → Reach aux ref strong rows r

theorem mem_grow {e : ρ → ρ → Bool} {live : List ρ} {r : ρ} :
    r ∈ grow e rows live ↔ r ∈ rows ∧ (r ∈ live ∨ ∃ s ∈ live, e s r = true) := by
  simp [grow, List.mem_filter, List.any_eq_true]

/-- `live` is what a filter of `rows` keeps (Python: `data[t]` is a subset of the original table). -/
def IsFilt (rows live : List ρ) : Prop := ∃ p : ρ → Bool, live = rows.filter p

omit [DecidableEq ρ] in
theorem IsFilt.mem {live : List ρ} (h : IsFilt rows live) {r : ρ} (hr : r ∈ live) : r ∈ rows := by
  obtain ⟨p, rfl⟩ := h; exact (List.mem_filter.1 hr).1

theorem isFilt_grow {e : ρ → ρ → Bool} {live : List ρ} : IsFilt rows (grow e rows live) := ⟨_, rfl⟩

theorem grow_step {e : ρ → ρ → Bool} {live : List ρ} (h : IsFilt rows live) :
    live.length ≤ (grow e rows live).length ∧
      ((grow e rows live).length = live.length → grow e rows live = live) := by
  obtain ⟨p, rfl⟩ := h
  have himp : ∀ x ∈ rows, p x = true →
      ((rows.filter p).contains x || (rows.filter p).any fun s => e s x) = true := by
    intro x hx hp; simp [List.mem_filter, hx, hp]
  exact ⟨length_filter_le_of_imp himp, fun hl => (filter_eq_of_imp_of_length_eq himp hl.symm).symm⟩

theorem isFilt_round {live : List ρ} : IsFilt rows (round aux ref rows live) := isFilt_grow

theorem round_step {live : List ρ} (h : IsFilt rows live) :
    live.length ≤ (round aux ref rows live).length ∧
      ((round aux ref rows live).length = live.length → round aux ref rows live = live) := by
  have h1 := grow_step (e := aux) h
  have h2 := grow_step (e := ref) (isFilt_grow (e := aux) (rows := rows) (live := live))
  refine ⟨Nat.le_trans h1.1 h2.1, fun hl => ?_⟩
  have e1 : grow aux rows live = live := h1.2 (by unfold round at hl; omega)
  unfold round at hl ⊢
  rw [e1] at hl ⊢
  exact (grow_step (e := ref) h).2 hl

theorem round_length_le {live : List ρ} : (round aux ref rows live).length ≤ rows.length :=
  List.length_filter_le _ _

theorem mem_round_of_mem {live : List ρ} (h : IsFilt rows live) {r : ρ} (hr : r ∈ live) :
    r ∈ round aux ref rows live :=
  mem_grow.2 ⟨h.mem hr, Or.inl (mem_grow.2 ⟨h.mem hr, Or.inl hr⟩)⟩

theorem isFilt_iter : ∀ (n : Nat) {live : List ρ}, IsFilt rows live → IsFilt rows (iter aux ref rows n live)
  | 0, _, h => h
  | n + 1, live, h => by
    unfold iter; dsimp only
    split
    · exact h
    · exact isFilt_iter n isFilt_round

/-- With enough fuel the loop ends in a fixed point of a whole turn. -/
theorem iter_fix : ∀ (n : Nat) {live : List ρ}, IsFilt rows live → rows.length ≤ live.length + n →
    round aux ref rows (iter aux ref rows n live) = iter aux ref rows n live
  | 0, live, h, hn => by
    have := round_step (aux := aux) (ref := ref) h
    have hle := round_length_le (aux := aux) (ref := ref) (rows := rows) (live := live)
    show round aux ref rows live = live
    exact this.2 (by omega)
  | n + 1, live, h, hn => by
    have hs := round_step (aux := aux) (ref := ref) h
    unfold iter; dsimp only
    split
    · next heq => exact hs.2 heq
    · next hne => exact iter_fix n isFilt_round (by omega)

theorem iter_of_stall {live : List ρ} (h : (round aux ref rows live).length = live.length) :
    ∀ k, iter aux ref rows k live = live
  | 0 => rfl
  | k + 1 => by unfold iter; simp [h]

theorem iter_succ (n : Nat) (live : List ρ) : iter aux ref rows (n + 1) live =
    if (round aux ref rows live).length = live.length then live
    else iter aux ref rows n (round aux ref rows live) := rfl

theorem iter_add : ∀ (n k : Nat) (live : List ρ),
    iter aux ref rows (n + k) live = iter aux ref rows k (iter aux ref rows n live)
  | 0, k, live => by simp [iter]
  | n + 1, k, live => by
    rw [show n + 1 + k = (n + k) + 1 by omega, iter_succ, iter_succ]
    split
    · next h => exact (iter_of_stall h k).symm
    · exact iter_add n k _

theorem subset_iter : ∀ (n : Nat) {live : List ρ}, IsFilt rows live → ∀ r ∈ live, r ∈ iter aux ref rows n live
  | 0, _, _, _, hr => hr
  | n + 1, live, h, r, hr => by
    unfold iter; dsimp only
    split
    · exact hr
    · exact subset_iter n isFilt_round r (mem_round_of_mem h hr)

theorem iter_sound : ∀ (n : Nat) {live : List ρ}, (∀ r ∈ live, Reach aux ref strong rows r) →
    ∀ r ∈ iter aux ref rows n live, Reach aux ref strong rows r
  | 0, _, h, r, hr => h r hr
  | n + 1, live, h, r, hr => by
    unfold iter at hr; dsimp only at hr
    split at hr
    · exact h r hr
    · refine iter_sound n (fun x hx => ?_) r hr
      have h1 : ∀ y ∈ grow aux rows live, Reach aux ref strong rows y := by
        intro y hy
        obtain ⟨hyr, hy | ⟨s, hs, hsy⟩⟩ := mem_grow.1 hy
        · exact h y hy
        · exact Reach.aux (h s hs) hyr hsy
      obtain ⟨hxr, hx | ⟨s, hs, hsx⟩⟩ := mem_grow.1 hx
      · exact h1 x hx
      · exact Reach.ref (h1 s hs) hxr hsx

theorem isFilt_cleanG : IsFilt rows (cleanG aux ref strong rows) := isFilt_iter _ ⟨strong, rfl⟩

theorem cleanG_fix : round aux ref rows (cleanG aux ref strong rows) = cleanG aux ref strong rows :=
  iter_fix _ ⟨strong, rfl⟩ (by omega)

theorem cleanG_closed {s r : ρ} (hs : s ∈ cleanG aux ref strong rows) (hr : r ∈ rows)
    (he : aux s r = true ∨ ref s r = true) : r ∈ cleanG aux ref strong rows := by
  rw [← cleanG_fix]
  have hs1 : s ∈ grow aux rows (cleanG aux ref strong rows) :=
    mem_grow.2 ⟨isFilt_cleanG.mem hs, Or.inl hs⟩
  rcases he with he | he
  · exact mem_grow.2 ⟨hr, Or.inl (mem_grow.2 ⟨hr, Or.inr ⟨s, hs, he⟩⟩)⟩
  · exact mem_grow.2 ⟨hr, Or.inr ⟨s, hs1, he⟩⟩

theorem mem_cleanG_iff {r : ρ} : r ∈ cleanG aux ref strong rows ↔ Reach aux ref strong rows r := by
  constructor
  · exact iter_sound _ (fun x hx => by
      obtain ⟨h1, h2⟩ := List.mem_filter.1 hx; exact Reach.base h1 h2) r
  · intro h
    induction h with
    | base h1 h2 => exact subset_iter _ ⟨strong, rfl⟩ _ (List.mem_filter.2 ⟨h1, h2⟩)
    | aux _ hr he ih => exact cleanG_closed ih hr (Or.inl he)
    | ref _ hr he ih => exact cleanG_closed ih hr (Or.inr he)

theorem cleanG_eq_filter :
    cleanG aux ref strong rows = rows.filter fun r => decide (r ∈ cleanG aux ref strong rows) := by
  obtain ⟨p, hp⟩ := isFilt_cleanG (aux := aux) (ref := ref) (strong := strong) (rows := rows)
  conv => lhs; rw [hp]
  apply List.filter_congr
  intro x hx
  rw [hp]
  simp [List.mem_filter, hx]

omit [DecidableEq ρ] in
theorem reach_congr {rows' : List ρ} (h : ∀ x, x ∈ rows ↔ x ∈ rows') {r : ρ}
    (hr : Reach aux ref strong rows r) : Reach aux ref strong rows' r := by
  induction hr with
  | base h1 h2 => exact Reach.base ((h _).1 h1) h2
  | aux _ h1 he ih => exact Reach.aux ih ((h _).1 h1) he
  | ref _ h1 he ih => exact Reach.ref ih ((h _).1 h1) he

omit [DecidableEq ρ] in
theorem reach_swap {r : ρ} (hr : Reach aux ref strong rows r) : Reach ref aux strong rows r := by
  induction hr with
  | base h1 h2 => exact Reach.base h1 h2
  | aux _ h1 he ih => exact Reach.ref ih h1 he
  | ref _ h1 he ih => exact Reach.aux ih h1 he

/-- The result does not depend on the order in which the rows are stored. -/
theorem cleanG_perm {rows' : List ρ} (h : rows.Perm rows') :
    (cleanG aux ref strong rows).Perm (cleanG aux ref strong rows') := by
  rw [cleanG_eq_filter (rows := rows), cleanG_eq_filter (rows := rows')]
  have : rows'.filter (fun r => decide (r ∈ cleanG aux ref strong rows')) =
      rows'.filter (fun r => decide (r ∈ cleanG aux ref strong rows)) := by
    apply List.filter_congr
    intro x _
    simp only [mem_cleanG_iff, decide_eq_decide]
    exact ⟨reach_congr fun y => (h.mem_iff).symm, reach_congr fun y => h.mem_iff⟩
  rw [this]
  exact h.filter _

/-- ... nor on which of the two restore phases runs first. -/
theorem cleanG_swap : cleanG ref aux strong rows = cleanG aux ref strong rows := by
  rw [cleanG_eq_filter (aux := ref), cleanG_eq_filter (aux := aux)]
  apply List.filter_congr
  intro x _
  simp only [mem_cleanG_iff, decide_eq_decide]
  exact ⟨reach_swap, reach_swap⟩

end Generic

/-! ## first row wins -/
section FirstWins
variable {α κ : Type} [DecidableEq κ] {key : α → Option κ} {act : α → Option α}

theorem firstWins_filter_key (hact : ∀ r r', act r = some r' → key r' = none) (k : κ) :
    ∀ (rows : List α) (seen : List κ),
      (firstWins key act seen rows).filter (fun r => decide (key r = some k)) =
        if k ∈ seen then [] else (rows.find? fun r => decide (key r = some k)).toList
  | [], seen => by simp [firstWins]
  | r :: rs, seen => by
    unfold firstWins
    split
    · next hk =>
      simp only [List.filter_cons, hk, List.find?_cons]
      simpa using firstWins_filter_key hact k rs seen
    · next k' hk =>
      by_cases hmem : k' ∈ seen
      · have hact' : (act r).toList.filter (fun r => decide (key r = some k)) = [] := by
          cases ha : act r with
          | none => simp
          | some r' => simp [hact r r' ha]
        simp only [hmem, if_true, List.filter_append, hact', List.nil_append,
          firstWins_filter_key hact k rs seen, List.find?_cons, hk]
        by_cases hkk : k' = k
        · subst hkk; simp [hmem]
        · simp [hkk]
      · simp only [hmem, if_false, List.filter_cons, hk, List.find?_cons,
          firstWins_filter_key hact k rs (k' :: seen)]
        by_cases hkk : k' = k
        · subst hkk; simp [hmem]
        · have : (k ∈ k' :: seen) = (k ∈ seen) := by
            simp [List.mem_cons, Ne.symm hkk]
          simp [hkk, this]

theorem mem_firstWins {x : α} : ∀ (rows : List α) (seen : List κ), x ∈ firstWins key act seen rows →
    x ∈ rows ∨ ∃ r ∈ rows, (key r).isSome = true ∧ act r = some x
  | [], _, h => by simp [firstWins] at h
  | r :: rs, seen, h => by
    have lift : (x ∈ rs ∨ ∃ r' ∈ rs, (key r').isSome = true ∧ act r' = some x) →
        x ∈ r :: rs ∨ ∃ r' ∈ r :: rs, (key r').isSome = true ∧ act r' = some x := by
      rintro (h | ⟨r', h1, h2⟩)
      · exact Or.inl (List.mem_cons_of_mem _ h)
      · exact Or.inr ⟨r', List.mem_cons_of_mem _ h1, h2⟩
    unfold firstWins at h
    split at h
    · rcases List.mem_cons.1 h with h | h
      · exact Or.inl (h ▸ List.mem_cons_self)
      · exact lift (mem_firstWins rs seen h)
    · next k hk =>
      split at h
      · rcases List.mem_append.1 h with h | h
        · exact Or.inr ⟨r, List.mem_cons_self, by simp [hk], by simpa [Option.mem_toList] using h⟩
        · exact lift (mem_firstWins rs seen h)
      · rcases List.mem_cons.1 h with h | h
        · exact Or.inl (h ▸ List.mem_cons_self)
        · exact lift (mem_firstWins rs _ h)

theorem mem_firstWins_of_unkeyed {x : α} (hx : key x = none) :
    ∀ (rows : List α) (seen : List κ), x ∈ rows → x ∈ firstWins key act seen rows
  | r :: rs, seen, h => by
    unfold firstWins
    rcases List.mem_cons.1 h with h | h
    · subst h; simp [hx]
    · have ih := fun s => mem_firstWins_of_unkeyed hx rs s h
      split
      · exact List.mem_cons_of_mem _ (ih _)
      · split
        · exact List.mem_append_right _ (ih _)
        · exact List.mem_cons_of_mem _ (ih _)

theorem firstWins_drop_sublist : ∀ (rows : List α) (seen : List κ),
    (firstWins key (fun _ => none) seen rows).Sublist rows
  | [], _ => by simp [firstWins]
  | r :: rs, seen => by
    unfold firstWins
    split
    · exact (firstWins_drop_sublist rs seen).cons_cons _
    · split
      · simpa using (firstWins_drop_sublist rs seen).cons _
      · exact (firstWins_drop_sublist rs _).cons_cons _

end FirstWins

/-! ## rows -/

theorem flatMap_congr' {α β : Type} {f g : α → List β} :
    ∀ {l : List α}, (∀ x ∈ l, f x = g x) → l.flatMap f = l.flatMap g
  | [], _ => rfl
  | a :: l, h => by
    simp only [List.flatMap_cons, h a List.mem_cons_self,
      flatMap_congr' (l := l) fun x hx => h x (List.mem_cons_of_mem _ hx)]

theorem lookup_demote {f : String} (hf : f ≠ "isDefault") : ∀ (l : Fields),
    List.lookup f (l.map fun kv => if kv.1 = "isDefault" then (kv.1, Val.bool false) else kv) = List.lookup f l
  | [] => rfl
  | (k, v) :: l => by
    by_cases hk : k = "isDefault"
    · subst hk
      have : (f == "isDefault") = false := by simpa using hf
      simp [List.lookup_cons, this, lookup_demote hf l]
    · simp [List.lookup_cons, hk, lookup_demote hf l]

theorem get_demote (r : Row) {f : String} (hf : f ≠ "isDefault") : (demote r).get f = r.get f := by
  unfold Row.get demote Fields.get
  rw [lookup_demote hf]

theorem refTargets_demote {refs : List Ref} (h : ∀ ρ ∈ refs, ρ.path ≠ .fk "isDefault") (r : Row) :
    refTargets refs (demote r) = refTargets refs r := by
  unfold refTargets
  apply flatMap_congr'
  intro ρ hρ
  have htbl : (demote r).tbl = r.tbl := rfl
  rw [htbl]
  split
  · congr 1
    cases hp : ρ.path with
    | fk f =>
      have hf : f ≠ "isDefault" := fun e => h ρ hρ (by rw [hp, e])
      simp only [Path.values, get_demote r hf]
    | modinfo k => rfl
    | attrval ids =>
      simp only [Path.values, get_demote r (show "attributeID" ≠ "isDefault" by decide),
        get_demote r (show "value" ≠ "isDefault" by decide)]
    | buff s k => rfl
  · rfl

theorem refTargets_mono {refs refs' : List Ref} (h : ∀ ρ ∈ refs, ρ ∈ refs') (s : Row) :
    ∀ tv ∈ refTargets refs s, tv ∈ refTargets refs' s := by
  intro tv htv
  obtain ⟨ρ, hρ, hm⟩ := List.mem_flatMap.1 htv
  exact List.mem_flatMap.2 ⟨ρ, h ρ hρ, hm⟩

theorem refTargets_tgt {refs : List Ref} {s : Row} {tv : Tbl × Val} (h : tv ∈ refTargets refs s) :
    ∃ ρ ∈ refs, tv.1 = ρ.tgt := by
  obtain ⟨ρ, hρ, hm⟩ := List.mem_flatMap.1 h
  refine ⟨ρ, hρ, ?_⟩
  split at hm
  · obtain ⟨v, _, rfl⟩ := List.mem_map.1 hm; rfl
  · simp at hm

/-! ## pre-conversion validators -/

theorem demote_unkeyed (r r' : Row) (h : some (demote r) = some r') : defaultKey r' = none := by
  cases h
  have : (demote r).get "isDefault" = Val.bool false ∨ (demote r).get "isDefault" = Val.none := by
    unfold Row.get demote Fields.get
    induction r.fields with
    | nil => right; rfl
    | cons kv l ih =>
      obtain ⟨k, v⟩ := kv
      by_cases hk : k = "isDefault"
      · left; subst hk; simp
      · have : ("isDefault" == k) = false := by simpa using Ne.symm hk
        simpa [List.lookup_cons, hk, this] using ih
  unfold defaultKey
  rcases this with h | h <;> simp [h, Val.truthy]

theorem toList_length_le_one {α : Type} (o : Option α) : o.toList.length ≤ 1 := by
  cases o <;> simp

theorem preconv_keeps {L : List Row} {r : Row} (hr : r ∈ L)
    (h1 : r.tbl ≠ .dgmtypeattribs) (h2 : r.tbl ≠ .dgmtypeeffects) : r ∈ preconv L := by
  unfold preconv collidingModuleRacks multipleDefaultEffects
  apply mem_firstWins_of_unkeyed (by simp [rackKey, h2])
  apply mem_firstWins_of_unkeyed (by simp [defaultKey, h2])
  exact List.mem_filter.2 ⟨hr, by simp [attrValueOk, h1]⟩

/-- A row of the converter's input is a row the cleaner kept, or such a dgmtypeeffects row with its
    default flag cleared. -/
theorem mem_preconv {L : List Row} {s : Row} (hs : s ∈ preconv L) :
    s ∈ L ∨ ∃ r ∈ L, r.tbl = .dgmtypeeffects ∧ s = demote r := by
  unfold preconv collidingModuleRacks multipleDefaultEffects at hs
  rcases mem_firstWins _ _ hs with h | ⟨_, _, _, h⟩
  · rcases mem_firstWins _ _ h with h | ⟨r, hr, hk, h⟩
    · exact Or.inl (List.mem_filter.1 h).1
    · cases h
      refine Or.inr ⟨r, (List.mem_filter.1 hr).1, ?_, rfl⟩
      unfold defaultKey at hk
      split at hk
      · next hc => simp only [Bool.and_eq_true, decide_eq_true_eq] at hc; exact hc.1
      · cases hk
  · cases h

theorem preconv_origin {refs : List Ref} (href : ∀ ρ ∈ refs, ρ.path ≠ .fk "isDefault")
    {L : List Row} {s : Row} (hs : s ∈ preconv L) :
    ∃ s0 ∈ L, refTargets refs s = refTargets refs s0 := by
  rcases mem_preconv hs with h | ⟨r, hr, _, rfl⟩
  · exact ⟨s, h, rfl⟩
  · exact ⟨r, hr, refTargets_demote href r⟩

end Eos.Cleaner
