import EosProofs.Lemmas.MicroGraph
import EosProofs.Lemmas.CalcBasic
/-! The settled message-level state is the specification: under `derivedDyn u cfg` (everything the source
knows is loaded, exactly the selected effects run, every running projectable effect is applied to the
item's target) the message-level calculation `gatherD` / `valueOfD` / `evalD` of `EosModel/WorldMicro.lean`
agrees with the from-scratch `World.gather` / `World.valueOf`.  Items are identified by id (`UniqueIds`).
`derivedDyn` registers no fleet-boost payload (no recorded boost targets, no warfare-buff modifiers), so the
comparison with the specification is for universes without buff effects (`hb`); the list-level facts
(`specsOn_derived_perm`, …) need no such hypothesis.  Settled states *with* fleet boosts:
`Lemmas/MicroBuff.lean`, `Lemmas/MicroBuffTable.lean`. -/
namespace Eos.Micro
open Eos.World Eos.Calc

variable {u : Universe} {cfg : Config}

/-! ## B1. Loaded types and running effects -/

theorem typeOf?_derived (hc : UniqueIds cfg) {x : Item} (hx : x ∈ cfg.items) :
    typeOf? u (derivedDyn u cfg) x = itemType? u cfg x := by
  simp only [typeOf?, derivedDyn, item?_of_mem hc hx, loaded, itemType?]
  split <;> simp_all

theorem typeEffects_derived (hc : UniqueIds cfg) {x : Item} (hx : x ∈ cfg.items) :
    typeEffects u (derivedDyn u cfg) x =
      match itemType? u cfg x with
      | none => []
      | some ty => ty.effects.filterMap (effect? u) := by
  unfold typeEffects; rw [typeOf?_derived hc hx]; rfl

/-- Filtering by "the id is the id of a selected element" is filtering by the selection, when elements
are determined by their ids. -/
theorem filter_ids {l : List Effect} (p : Effect → Bool)
    (hl : ∀ e ∈ l, ∀ e' ∈ l, e.id = e'.id → e = e') :
    l.filter (fun e => ((l.filter p).map (·.id)).contains e.id) = l.filter p := by
  refine List.filter_congr fun e he => ?_
  cases hp : p e with
  | true =>
    show ((l.filter p).map (·.id)).contains e.id = true
    rw [List.contains_iff_mem]
    exact List.mem_map.2 ⟨e, List.mem_filter.2 ⟨he, hp⟩, rfl⟩
  | false =>
    show ((l.filter p).map (·.id)).contains e.id = false
    rw [Bool.eq_false_iff]
    intro hcon
    rw [List.contains_iff_mem] at hcon
    obtain ⟨e', he', hid⟩ := List.mem_map.1 hcon
    obtain ⟨he', hp'⟩ := List.mem_filter.1 he'
    rw [hl e' he' e he hid, hp] at hp'; cases hp'

theorem running_derived (hc : UniqueIds cfg) {x : Item} (hx : x ∈ cfg.items) :
    running u (derivedDyn u cfg) x = runningEffects u cfg x := by
  unfold running
  rw [typeEffects_derived hc hx]
  simp only [derivedDyn, item?_of_mem hc hx, runningIds]
  unfold runningEffects
  cases itemType? u cfg x with
  | none => rfl
  | some ty =>
    refine filter_ids _ fun e he e' he' hid => ?_
    obtain ⟨i, _, hi⟩ := List.mem_filterMap.1 he
    obtain ⟨i', _, hi'⟩ := List.mem_filterMap.1 he'
    have h1 : e.id = i := by simpa using List.find?_some hi
    have h2 : e'.id = i' := by simpa using List.find?_some hi'
    have : effect? u i = effect? u i' := by rw [← h1, ← h2, hid]
    rw [hi, hi'] at this; exact Option.some.inj this

/-! ## B2. Recorded targets -/

theorem targetsOf_derived (hc : UniqueIds cfg) {x : Item} (hx : x ∈ cfg.items) {e : Effect}
    (he : effect? u e.id = some e) :
    targetsOf cfg (derivedDyn u cfg) x e = projectionTargets cfg x e := by
  simp only [targetsOf, derivedDyn, item?_of_mem hc hx, he]
  unfold projectionTargets
  split
  · cases x.target with
    | none => rfl
    | some t =>
      dsimp only
      cases hi : item? cfg t with
      | none => rfl
      | some y =>
        have hid : y.id = t := by simpa using List.find?_some hi
        simp [hid, hi]
  · rfl

/-- For a running effect of the settled state (its id resolves to itself). -/
theorem targetsOf_derived_running (hc : UniqueIds cfg) {x : Item} (hx : x ∈ cfg.items) {e : Effect}
    (he : e ∈ running u (derivedDyn u cfg) x) :
    targetsOf cfg (derivedDyn u cfg) x e = projectionTargets cfg x e :=
  targetsOf_derived hc hx (running_mem he).2

/-! ## Folds that append or fail -/

section fold
variable {σ ε β : Type}

/-- One fold step driven by an outcome function: skip, append one element, or fail. -/
def stepS (out : σ → Except ε (Option β)) (acc : List β) (s : σ) : Except ε (List β) :=
  match out s with
  | .ok none => .ok acc
  | .ok (some b) => .ok (acc ++ [b])
  | .error w => .error w

def errsOf (out : σ → Except ε (Option β)) (l : List σ) : List ε :=
  l.filterMap fun s => match out s with | .error w => some w | .ok _ => none

def oksOf (out : σ → Except ε (Option β)) (l : List σ) : List β :=
  l.filterMap fun s => match out s with | .ok o => o | .error _ => none

/-- The fold fails with the first failing outcome, else collects the appended elements in order. -/
theorem foldlM_stepS (out : σ → Except ε (Option β)) (l : List σ) (init : List β) :
    l.foldlM (stepS out) init =
      match errsOf out l with
      | [] => .ok (init ++ oksOf out l)
      | w :: _ => .error w := by
  induction l generalizing init with
  | nil => simp [errsOf, oksOf, pure, Except.pure]
  | cons s l ih =>
    rw [List.foldlM_cons]
    cases ho : out s with
    | error w => simp [stepS, errsOf, ho, bind, Except.bind]
    | ok o =>
      cases o with
      | none =>
        have h1 : errsOf out (s :: l) = errsOf out l := by simp [errsOf, ho]
        have h2 : oksOf out (s :: l) = oksOf out l := by simp [oksOf, ho]
        simp only [stepS, ho, bind, Except.bind, ih, h1, h2]
      | some b =>
        have h1 : errsOf out (s :: l) = errsOf out l := by simp [errsOf, ho]
        have h2 : oksOf out (s :: l) = b :: oksOf out l := by simp [oksOf, ho]
        simp only [stepS, ho, bind, Except.bind, ih, h1, h2, List.append_assoc, List.singleton_append]

theorem mem_errsOf {out : σ → Except ε (Option β)} {l : List σ} {w : ε} (h : w ∈ errsOf out l) :
    ∃ s ∈ l, out s = .error w := by
  obtain ⟨s, hs, h⟩ := List.mem_filterMap.1 h
  refine ⟨s, hs, ?_⟩
  split at h
  · cases h; assumption
  · cases h

theorem foldlM_flatMap {α γ : Type} (f : β → γ → Except ε β) (g : α → List γ) (l : List α) (init : β) :
    (l.flatMap g).foldlM f init = l.foldlM (fun acc a => (g a).foldlM f acc) init := by
  induction l generalizing init with
  | nil => rfl
  | cons a l ih =>
    rw [List.flatMap_cons, List.foldlM_append, List.foldlM_cons]
    congr 1; funext b; exact ih b

/-- Two such folds over permuted lists with outcome functions that agree on the elements: both succeed
with permuted results, or both fail, each with an error one of its elements produces. -/
theorem foldlM_stepS_perm {out out' : σ → Except ε (Option β)} {l l' : List σ} (hp : l.Perm l')
    (ho : ∀ s ∈ l, out s = out' s) :
    (∃ r r', l.foldlM (stepS out) [] = .ok r ∧ l'.foldlM (stepS out') [] = .ok r' ∧ r.Perm r') ∨
    (∃ w w', l.foldlM (stepS out) [] = .error w ∧ l'.foldlM (stepS out') [] = .error w' ∧
      (∃ s ∈ l, out s = .error w) ∧ (∃ s ∈ l', out' s = .error w')) := by
  have he : (errsOf out l).Perm (errsOf out' l') := by
    unfold errsOf
    rw [List.filterMap_congr (fun s hs => by rw [ho s hs])]
    exact hp.filterMap _
  have hk : (oksOf out l).Perm (oksOf out' l') := by
    unfold oksOf
    rw [List.filterMap_congr (fun s hs => by rw [ho s hs])]
    exact hp.filterMap _
  rw [foldlM_stepS, foldlM_stepS]
  cases h1 : errsOf out l with
  | nil =>
    rw [h1] at he
    rw [← he.nil_eq]
    exact Or.inl ⟨_, _, rfl, rfl, by simpa using hk⟩
  | cons w ws =>
    cases h2 : errsOf out' l' with
    | nil => rw [h1, h2] at he; cases he.eq_nil
    | cons w' ws' =>
      exact Or.inr ⟨w, w', rfl, rfl, mem_errsOf (h1 ▸ List.mem_cons_self),
        mem_errsOf (h2 ▸ List.mem_cons_self)⟩

end fold

/-! ## Both gatherings as one fold over a list of specs -/

/-- Outcome of one spec acting on `x`: nothing (no source value), one modification, or an error answer
of the reader (for the source or the resistance attribute). -/
def specOut (cfg : Config) (rd : Reader) (x : Item) (imm : Item → Bool) (s : Spec) : Except Val (Option Mod) :=
  match rd s.a s.m.srcAttr with
  | .absent => .ok none
  | .ok v => (match resistD cfg rd s.e x with
    | .ok r => .ok (some { op := s.m.op, value := v, resist := r, agg := s.m.agg, aggKey := s.m.aggKey,
                            immune := imm s.a })
    | w => .error w)
  | w => .error w

/-- An error outcome: one of the two error values, and an answer of the reader. -/
def IsErrOf (rd : Reader) (w : Val) : Prop := (w = .divZero ∨ w = .notWF) ∧ ∃ y a, rd y a = w

theorem resistD_cases (rd : Reader) (e : Effect) (x : Item) :
    resistD cfg rd e x = .ok 1 ∨ ∃ c r, rd c r = resistD cfg rd e x ∧ rd c r ≠ .absent := by
  unfold resistD
  split
  · exact Or.inl rfl
  · rename_i c r _
    split
    · exact Or.inl rfl
    · rename_i hne; exact Or.inr ⟨c, r, rfl, hne⟩

theorem specOut_err {rd : Reader} {x : Item} {imm : Item → Bool} {s : Spec} {w : Val}
    (h : specOut cfg rd x imm s = .error w) : IsErrOf rd w := by
  unfold specOut at h
  split at h
  · cases h
  · split at h
    · cases h
    · cases h
      rename_i hno
      rcases resistD_cases (cfg := cfg) rd s.e x with h1 | ⟨c, r, h1, h2⟩
      · exact absurd h1 (hno 1)
      · refine ⟨?_, c, r, h1⟩
        rw [← h1] at hno ⊢
        cases hv : rd c r with
        | absent => exact absurd hv h2
        | ok v => exact absurd hv (hno v)
        | divZero => exact Or.inl rfl
        | notWF => exact Or.inr rfl
  · cases h
    rename_i h1 h2
    refine ⟨?_, _, _, rfl⟩
    cases hv : rd s.a s.m.srcAttr with
    | absent => exact absurd hv h1
    | ok v => exact absurd hv (h2 v)
    | divZero => exact Or.inl rfl
    | notWF => exact Or.inr rfl

theorem resistD_eq_resistOf (rd : Reader) (e : Effect) (x : Item) :
    resistD cfg rd e x = resistOf cfg rd e x := by
  rw [resistOf_eq]
  unfold resistD resistRead
  cases e.resistAttr with
  | none => rfl
  | some r =>
    have hcar : World.carrierOf cfg x = Micro.carrierOf cfg x := rfl
    by_cases h0 : (r == 0) = true
    · simp only [h0, ↓reduceIte]
    · simp only [h0, hcar]
      cases Micro.carrierOf cfg x <;> rfl

theorem gatherD_eq_fold (d : Dyn) (immune : List Int) (rd : Reader) (x : Item) (tx : ItemType) (attr : Int) :
    gatherD u cfg d immune rd x tx attr =
      (specsOn u cfg d x tx attr).foldlM (stepS (specOut cfg rd x (immuneOf u d immune))) [] := by
  unfold gatherD
  refine foldlM_congr_mem _ (fun acc s _ => ?_) _
  unfold stepS specOut
  cases rd s.a s.m.srcAttr <;> try rfl
  cases resistD cfg rd s.e x <;> rfl

/-- Immunity flag of the carrier as the specification computes it. -/
def immW (u : Universe) (cfg : Config) (immune : List Int) (a : Item) : Bool :=
  match itemType? u cfg a with
  | some ta => (match ta.category with | some c => immune.contains c | none => false)
  | none => false

/-- The specs `World.gather` walks through for one running effect `e` of `a`: the local modifiers that
select `x`, then per projection target the projected ones. -/
def specsW (cfg : Config) (x : Item) (tx : ItemType) (attr : Int) (a : Item) (e : Effect) : List Spec :=
  (e.mods.filter fun m => m.tgtAttr == attr && affectsLocal cfg a m x tx).map (fun m => ⟨a, e, m, none⟩) ++
  (projectionTargets cfg a e).flatMap fun tg =>
    (e.mods.filter fun m => m.domain == 4 && m.tgtAttr == attr && affectsProjected cfg a m tg x tx).map
      fun m => ⟨a, e, m, some tg⟩

theorem stepS_eq_mkMod {immune : List Int} {rd : Reader} {x a : Item} {ta : ItemType}
    (hta : itemType? u cfg a = some ta) (e : Effect) (m : Modifier) (tg : Option Item) (acc : List Mod) :
    stepS (specOut cfg rd x (immW u cfg immune)) acc ⟨a, e, m, tg⟩ =
      mkMod cfg rd x a e (match ta.category with | some c => immune.contains c | none => false) m acc := by
  unfold mkMod stepS specOut immW
  rw [hta, resistD_eq_resistOf]
  dsimp only
  cases rd a m.srcAttr <;> try rfl
  cases resistOf cfg rd e x <;> rfl

theorem effStep_eq_fold {immune : List Int} {rd : Reader} {x : Item} {tx : ItemType} {attr : Int} {a : Item}
    {ta : ItemType} (hta : itemType? u cfg a = some ta) {e : Effect} (hb : e.isBuff = false) (acc : List Mod) :
    effStep u cfg immune rd x tx attr a ta acc e =
      (specsW cfg x tx attr a e).foldlM (stepS (specOut cfg rd x (immW u cfg immune))) acc := by
  unfold effStep specsW
  simp only [hb, Bool.false_eq_true, if_false, bind_pure, List.foldlM_append, List.foldlM_map,
    foldlM_flatMap, stepS_eq_mkMod hta]
  rfl

/-- Without buff effects `World.gather` is one fold over the specs of all running effects. -/
theorem gather_eq_fold (hb : ∀ e ∈ u.effects, e.isBuff = false) (immune : List Int) (rd : Reader) (x : Item)
    (tx : ItemType) (attr : Int) :
    gather u cfg immune rd x tx attr =
      (cfg.items.flatMap fun a => (runningEffects u cfg a).flatMap (specsW cfg x tx attr a)).foldlM
        (stepS (specOut cfg rd x (immW u cfg immune))) [] := by
  rw [gather_eq, foldlM_flatMap]
  refine foldlM_congr_mem _ (fun acc a _ => ?_) _
  cases hta : itemType? u cfg a with
  | none => simp [runningEffects, hta, pure, Except.pure]
  | some ta =>
    rw [foldlM_flatMap]
    exact foldlM_congr_mem _ (fun acc e he => effStep_eq_fold hta (hb e (runningEffects_mem he)) acc) _

/-! ## B3. The settled spec list is a permutation of the specification's -/

section perm
variable {x : Item} {tx : ItemType} {attr : Int}

theorem filter_local (a : Item) (e : Effect) :
    ((e.mods.filter (·.domain != 4)).map fun m => (⟨a, e, m, none⟩ : Spec)).filter
        (fun s => s.m.tgtAttr == attr && selects cfg s x tx) =
      (e.mods.filter fun m => m.tgtAttr == attr && affectsLocal cfg a m x tx).map fun m => ⟨a, e, m, none⟩ := by
  rw [List.filter_map, List.filter_filter]
  congr 1
  refine List.filter_congr fun m _ => ?_
  simp only [Function.comp, selects]
  cases hd : m.domain == 4 with
  | false => simp [bne, hd]
  | true => simp [affectsLocal, hd]

theorem filter_proj (a : Item) (e : Effect) (t : Item) :
    ((e.mods.filter (·.domain == 4)).map fun m => (⟨a, e, m, some t⟩ : Spec)).filter
        (fun s => s.m.tgtAttr == attr && selects cfg s x tx) =
      (e.mods.filter fun m => m.domain == 4 && m.tgtAttr == attr && affectsProjected cfg a m t x tx).map
        fun m => ⟨a, e, m, some t⟩ := by
  rw [List.filter_map, List.filter_filter]
  congr 1
  refine List.filter_congr fun m _ => ?_
  simp only [Function.comp, selects]
  cases m.domain == 4 <;> cases m.tgtAttr == attr <;> simp

/-- The settled state of the specification registers no warfare-buff payload. -/
theorem projMods_derived (a : Item) (e : Effect) :
    projMods u (derivedDyn u cfg) a e = e.mods.filter (·.domain == 4) := by
  unfold projMods derivedDyn; cases e.isBuff <;> simp

/-- Per carrier item: the settled specs that act on `(x, attr)` are the specification's, with the local
ones of all running effects listed first. -/
theorem specs_item_perm (hc : UniqueIds cfg) {a : Item} (ha : a ∈ cfg.items) :
    ((localSpecs u (derivedDyn u cfg) a ++ projSpecs u cfg (derivedDyn u cfg) a).filter
        fun s => s.m.tgtAttr == attr && selects cfg s x tx).Perm
      ((runningEffects u cfg a).flatMap (specsW cfg x tx attr a)) := by
  have hl : (localSpecs u (derivedDyn u cfg) a).filter (fun s => s.m.tgtAttr == attr && selects cfg s x tx) =
      (runningEffects u cfg a).flatMap fun e =>
        (e.mods.filter fun m => m.tgtAttr == attr && affectsLocal cfg a m x tx).map fun m => ⟨a, e, m, none⟩ := by
    unfold localSpecs
    rw [running_derived hc ha, List.filter_flatMap]
    exact List.flatMap_congr fun e _ => filter_local a e
  have hp : (projSpecs u cfg (derivedDyn u cfg) a).filter (fun s => s.m.tgtAttr == attr && selects cfg s x tx) =
      (runningEffects u cfg a).flatMap fun e => (projectionTargets cfg a e).flatMap fun tg =>
        (e.mods.filter fun m => m.domain == 4 && m.tgtAttr == attr && affectsProjected cfg a m tg x tx).map
          fun m => ⟨a, e, m, some tg⟩ := by
    unfold projSpecs
    rw [List.filter_flatMap]
    have hrun := running_derived (u := u) hc ha
    rw [List.flatMap_congr (g := fun e => (projectionTargets cfg a e).flatMap fun tg =>
        (e.mods.filter fun m => m.domain == 4 && m.tgtAttr == attr && affectsProjected cfg a m tg x tx).map
          fun m => (⟨a, e, m, some tg⟩ : Spec)) ?_, hrun]
    intro e he
    rw [targetsOf_derived_running hc ha he, projMods_derived]
    split
    · rw [List.filter_flatMap]
      exact List.flatMap_congr fun t _ => filter_proj a e t
    · rename_i hcat
      have hcat2 : (e.category == 2) = false := by
        cases h2 : e.category == 2
        · rfl
        · rw [h2] at hcat; exact absurd rfl hcat
      simp [projectionTargets, hcat2]
  rw [List.filter_append, hl, hp]
  exact List.flatMap_append_perm _ _ _

theorem specsOn_derived_perm (hc : UniqueIds cfg) :
    (specsOn u cfg (derivedDyn u cfg) x tx attr).Perm
      (cfg.items.flatMap fun a => (runningEffects u cfg a).flatMap (specsW cfg x tx attr a)) := by
  unfold specsOn allSpecs
  rw [List.filter_flatMap]
  exact List.Perm.flatMap_left _ fun a ha => specs_item_perm hc ha

end perm

theorem immuneOf_derived (hc : UniqueIds cfg) (immune : List Int) {a : Item} (ha : a ∈ cfg.items) :
    immuneOf u (derivedDyn u cfg) immune a = immW u cfg immune a := by
  unfold immuneOf immW; rw [typeOf?_derived hc ha]; rfl

/-- B3: in a universe without buff effects the message-level gathering in the settled state and the
specification's gathering both succeed, with permuted lists of modifications (the orders differ: the
message level lists the local specs of all running effects of an item before the projected ones), or
both fail, each with an error answer (`divZero` / `notWF`) of the reader. -/
theorem gatherD_derived_perm (hb : ∀ e ∈ u.effects, e.isBuff = false) (hc : UniqueIds cfg)
    (immune : List Int) (rd : Reader) (x : Item) (tx : ItemType) (attr : Int) :
    (∃ l l', gatherD u cfg (derivedDyn u cfg) immune rd x tx attr = .ok l ∧
      gather u cfg immune rd x tx attr = .ok l' ∧ l.Perm l') ∨
    (∃ w w', gatherD u cfg (derivedDyn u cfg) immune rd x tx attr = .error w ∧
      gather u cfg immune rd x tx attr = .error w' ∧ IsErrOf rd w ∧ IsErrOf rd w') := by
  rw [gatherD_eq_fold, gather_eq_fold hb]
  have ho : ∀ s ∈ specsOn u cfg (derivedDyn u cfg) x tx attr,
      specOut cfg rd x (immuneOf u (derivedDyn u cfg) immune) s = specOut cfg rd x (immW u cfg immune) s := by
    intro s hs
    unfold specOut
    rw [immuneOf_derived hc immune (specsOn_mem hs).1]
  rcases foldlM_stepS_perm (specsOn_derived_perm (u := u) (x := x) (tx := tx) (attr := attr) hc) ho with
    h | ⟨w, w', h1, h2, ⟨_, _, e1⟩, ⟨_, _, e2⟩⟩
  · exact Or.inl h
  · exact Or.inr ⟨w, w', h1, h2, specOut_err e1, specOut_err e2⟩

/-! ## B4. Values -/

/-- In the settled state the message-level value of `(x, am)` is the specification's value, except that
when both gatherings fail the two may report different error answers of the reader. -/
theorem valueOfD_derived_cases (hb : ∀ e ∈ u.effects, e.isBuff = false) (hc : UniqueIds cfg)
    (immune limited : List Int) (pen : Nat → Rat) (rd : Reader) {x : Item} (hx : x ∈ cfg.items) (am : AttrMeta) :
    valueOfD u cfg (derivedDyn u cfg) immune limited pen rd x am = valueOf u cfg immune limited pen rd x am ∨
    (IsErrOf rd (valueOfD u cfg (derivedDyn u cfg) immune limited pen rd x am) ∧
      IsErrOf rd (valueOf u cfg immune limited pen rd x am)) := by
  rw [valueOf_eq]
  unfold valueOfD
  split
  · exact Or.inl rfl
  · rw [typeOf?_derived hc hx]
    cases itemType? u cfg x with
    | none => exact Or.inl rfl
    | some tx =>
      dsimp only
      rw [show World.baseOf tx am = Micro.baseOf tx am from rfl]
      cases Micro.baseOf tx am with
      | none => exact Or.inl rfl
      | some b =>
        rcases gatherD_derived_perm hb hc immune rd x tx am.id with ⟨l, l', h1, h2, hp⟩ | ⟨w, w', h1, h2, e1, e2⟩
        · left
          simp only [h1, h2, capOf, calculate_perm' pen am.stackable am.hig b hp]
          rfl
        · simp only [h1, h2]
          exact Or.inr ⟨e1, e2⟩

theorem valToOption_err {rd : Reader} {w : Val} (h : IsErrOf rd w) : valToOption w = none := by
  rcases h.1 with rfl | rfl <;> rfl

/-- B4: the values agree as optional numbers (an error on one side is an error on the other). -/
theorem valueOfD_derived (hb : ∀ e ∈ u.effects, e.isBuff = false) (hc : UniqueIds cfg)
    (immune limited : List Int) (pen : Nat → Rat) (rd : Reader) {x : Item} (hx : x ∈ cfg.items) (am : AttrMeta) :
    valToOption (valueOfD u cfg (derivedDyn u cfg) immune limited pen rd x am) =
      valToOption (valueOf u cfg immune limited pen rd x am) := by
  rcases valueOfD_derived_cases hb hc immune limited pen rd hx am with h | ⟨h1, h2⟩
  · rw [h]
  · rw [valToOption_err h1, valToOption_err h2]

/-- B4, as values: equal when the reader yields at most one kind of error (in particular when it yields
none, as every `readerOf` does). -/
theorem valueOfD_derived_eq (hb : ∀ e ∈ u.effects, e.isBuff = false) (hc : UniqueIds cfg)
    (immune limited : List Int) (pen : Nat → Rat) (rd : Reader)
    (hrd : ∀ y a y' a', rd y a = .divZero → rd y' a' = .notWF → False)
    {x : Item} (hx : x ∈ cfg.items) (am : AttrMeta) :
    valueOfD u cfg (derivedDyn u cfg) immune limited pen rd x am = valueOf u cfg immune limited pen rd x am := by
  rcases valueOfD_derived_cases hb hc immune limited pen rd hx am with h | ⟨⟨h1, y, a, r1⟩, ⟨h2, y', a', r2⟩⟩
  · exact h
  · rcases h1 with h1 | h1 <;> rcases h2 with h2 | h2
    · rw [h1, h2]
    · exact (hrd y a y' a' (r1.trans h1) (r2.trans h2)).elim
    · exact (hrd y' a' y a (r2.trans h2) (r1.trans h1)).elim
    · rw [h1, h2]

/-- The `eval` of the settled state's dependency graph is the specification's `valueOf` under the reader
of the valuation. -/
theorem evalD_derived (hb : ∀ e ∈ u.effects, e.isBuff = false) (hc : UniqueIds cfg)
    (immune limited : List Int) (pen : Nat → Rat) (n : Node) (f : Node → Option Rat) :
    evalD u cfg (derivedDyn u cfg) immune limited pen n f =
      match item? cfg n.1, attrMeta? u n.2 with
      | some x, some am => valToOption (valueOf u cfg immune limited pen (readerOf u f) x am)
      | _, _ => none := by
  unfold evalD
  cases hx : item? cfg n.1 with
  | none => rfl
  | some x =>
    cases attrMeta? u n.2 with
    | none => rfl
    | some am => exact valueOfD_derived hb hc immune limited pen _ (item?_mem hx) am

/-! ## Non-vacuity

A ship (type 1, attribute 37 = 100) and a mid-slot module (type 2, attribute 20 = 3/2, active, targeting the
ship of its own fit) with two running projectable effects; each has a local modifier (ship of the fit) and a
projected one (target) on the ship's attribute 37.  The message level lists the two local specs first, the
specification goes effect by effect: the gathered lists differ in order (operators 4,5,6,7 vs 4,6,5,7). -/
def settleU : Universe :=
  { attrs := [⟨20, none, none, true, true⟩, ⟨37, none, none, true, true⟩],
    effects := [⟨1000, 2, none, none, false, [⟨1, 3, none, 37, 4, 1, none, 20⟩, ⟨1, 4, none, 37, 6, 1, none, 20⟩]⟩,
                ⟨1001, 2, none, none, false, [⟨1, 3, none, 37, 5, 1, none, 20⟩, ⟨1, 4, none, 37, 7, 1, none, 20⟩]⟩],
    types := [⟨1, none, some 6, none, [(37, 100)], [], []⟩,
              ⟨2, none, some 7, some 1000, [(20, 3/2)], [1000, 1001], []⟩] }
def settleShip : Item := ⟨1, .ship, 1, 0, 1, none, none, none, []⟩
def settleCfg : Config :=
  { hasSource := true, fits := [⟨0, some 1, none, none⟩],
    items := [settleShip, ⟨2, .moduleMid, 2, 0, 3, none, some 1, none, [(1001, 3)]⟩] }
def settleRd : Reader := fun _ a => if a == 20 then .ok (3/2) else .absent

example : UniqueIds settleCfg := by unfold UniqueIds; decide
example : ∀ e ∈ settleU.effects, e.isBuff = false := by decide
example : (gatherD settleU settleCfg (derivedDyn settleU settleCfg) specImmune settleRd settleShip
    ⟨1, none, some 6, none, [(37, 100)], [], []⟩ 37).toOption.map (·.map (·.op)) = some [4, 5, 6, 7] := by
  decide +kernel
example : (gather settleU settleCfg specImmune settleRd settleShip
    ⟨1, none, some 6, none, [(37, 100)], [], []⟩ 37).toOption.map (·.map (·.op)) = some [4, 6, 5, 7] := by
  decide +kernel
/-- (100 + 3/2 − 3/2) · 3/2 · 3/2 on both levels. -/
example : valueOfD settleU settleCfg (derivedDyn settleU settleCfg) specImmune specLimited (fun _ => 1) settleRd settleShip
    ⟨37, none, none, true, true⟩ = .ok 225 := by decide +kernel
example : valueOf settleU settleCfg specImmune specLimited (fun _ => 1) settleRd settleShip
    ⟨37, none, none, true, true⟩ = .ok 225 := by decide +kernel

end Eos.Micro
