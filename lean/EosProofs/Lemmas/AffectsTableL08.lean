import EosGen.AffectsTableL08
/-! C02: on every case of the regenerated local "which items does the modifier select" table whose affector
class has number 08 (`Eos.World.Kind.ofNat?`), the specification's `affectsLocal` gives the answer the real code
gave; the block has exactly the generated number of cases, of "modified" cases and of cases with a valid modifier (kernel evaluation; one file
per affector class so the checks run in parallel). -/
namespace Eos.C02
open Eos.AffectsSpec EosGen.AffectsTable

theorem affects_blockL08_ok : localBlockOk blockL08 blockL08Cases blockL08Modified blockL08Valid = true := by decide +kernel

end Eos.C02
