import EosModel.WorldMicroExec
import EosProofs.Lemmas.MicroAssembly
/-! The executable side of the message-level model (`EosModel/WorldMicroExec.lean`, run by
`Driver/Micro.lean`) computes what the theorems of `Props/C01World.lean` are about.

1. the table-backed cascade `cascT` / `visitT` / `visitAllT` is `casc` / `visit` / `visitAll` on the function
   `tblFun` of the table;
2. `mstepT` is `mstep` through `TState.toM`;
3. `compactDyn` (the finite re-packing of the registers the driver applies after every message) is the
   identity on registers that only speak about the configuration's items and their types' effects
   (`DynFin`), and messages naming such items and effects keep registers like that;
4. the executable read `readNode` returns the from-scratch value and fills a set of nodes that makes the
   read a legal `.read` step of the abstract machine. -/
namespace Eos.Micro
open Eos.World Eos.Calc

variable {u : Universe}

/-! ## 1. Tables -/

/-- Look-up in a table filtered by a predicate on the keys. -/
theorem tblFun_filter (p : Node → Bool) (T : Tbl) (n : Node) :
    tblFun (T.filter fun e => p e.1) n = if p n then tblFun T n else none := by
  unfold tblFun
  induction T with
  | nil => simp
  | cons e T ih =>
    by_cases hp : p e.1 = true
    · simp only [List.filter_cons, hp, if_true]
      by_cases he : e.1 = n
      · rw [List.find?_cons_of_pos (by simpa using he), List.find?_cons_of_pos (by simpa using he), ← he, if_pos hp]
      · rw [List.find?_cons_of_neg (by simpa using he), List.find?_cons_of_neg (by simpa using he)]; exact ih
    · simp only [List.filter_cons, hp, Bool.false_eq_true, if_false]
      by_cases he : e.1 = n
      · rw [ih, ← he, if_neg hp, if_neg hp]
      · rw [List.find?_cons_of_neg (by simpa using he)]; exact ih

theorem tblFun_drop (T : Tbl) (n : Node) : tblFun (T.drop n) = dropNode (tblFun T) n := by
  funext x
  refine (tblFun_filter (fun k => k != n) T x).trans ?_
  unfold dropNode
  by_cases h : x = n
  · simp [h]
  · simp [h]

theorem tblFun_unload (T : Tbl) (i : Nat) :
    tblFun (T.filter fun e => e.1.1 != i) = fun n => if n.1 = i then none else tblFun T n := by
  funext n
  refine (tblFun_filter (fun k => k.1 != i) T n).trans ?_
  by_cases h : n.1 = i
  · simp [h]
  · simp [h]

theorem foldl_tblFun {α : Type} (vT : Tbl → α → Tbl) (v : Cache → α → Cache)
    (h : ∀ T a, tblFun (vT T a) = v (tblFun T) a) (l : List α) (T : Tbl) :
    tblFun (l.foldl vT T) = l.foldl v (tblFun T) := by
  induction l generalizing T with
  | nil => rfl
  | cons a l ih => rw [List.foldl_cons, List.foldl_cons, ih, h]

/-- The table-backed cascade computes the cascade of the model. -/
theorem cascT_visitT_eq (cfg : Config) (d : Dyn) : ∀ fuel : Nat,
    (∀ (T : Tbl) (n : Node), tblFun (cascT u cfg d fuel T n) = casc u cfg d fuel (tblFun T) n) ∧
    (∀ (T : Tbl) (t : Node), tblFun (visitT u cfg d fuel T t) = visit u cfg d fuel (tblFun T) t) := by
  have hv : ∀ fuel, (∀ (T : Tbl) (n : Node), tblFun (cascT u cfg d fuel T n) = casc u cfg d fuel (tblFun T) n) →
      ∀ (T : Tbl) (t : Node), tblFun (visitT u cfg d fuel T t) = visit u cfg d fuel (tblFun T) t := by
    intro fuel hc T t
    rw [visitT, visit]
    cases hk : tblFun T t with
    | none => simp
    | some v => simp only [Option.isNone_some, Bool.false_eq_true, if_false, reduceCtorEq]; rw [hc, tblFun_drop]
  intro fuel
  induction fuel with
  | zero =>
    have hc : ∀ (T : Tbl) (n : Node), tblFun (cascT u cfg d 0 T n) = casc u cfg d 0 (tblFun T) n := by
      intro T n; rw [cascT, casc]
    exact ⟨hc, hv 0 hc⟩
  | succ f ih =>
    have hc : ∀ (T : Tbl) (n : Node),
        tblFun (cascT u cfg d (f + 1) T n) = casc u cfg d (f + 1) (tblFun T) n := by
      intro T n; rw [cascT, casc]
      exact foldl_tblFun _ _ ih.2 _ T
    exact ⟨hc, hv (f + 1) hc⟩

theorem cascT_eq (cfg : Config) (d : Dyn) (fuel : Nat) (T : Tbl) (n : Node) :
    tblFun (cascT u cfg d fuel T n) = casc u cfg d fuel (tblFun T) n := (cascT_visitT_eq cfg d fuel).1 T n

theorem visitT_eq (cfg : Config) (d : Dyn) (fuel : Nat) (T : Tbl) (t : Node) :
    tblFun (visitT u cfg d fuel T t) = visit u cfg d fuel (tblFun T) t := (cascT_visitT_eq cfg d fuel).2 T t

theorem visitAllT_eq (cfg : Config) (d : Dyn) (fuel : Nat) (T : Tbl) (l : List Node) :
    tblFun (visitAllT u cfg d fuel T l) = visitAll u cfg d fuel (tblFun T) l :=
  foldl_tblFun _ _ (visitT_eq cfg d fuel) l T

/-! ## 2. `mstepT` is `mstep` -/

/-- What the driver computes for a message on the table representation is the `mstep` of the model. -/
theorem mstepT_toM (s : TState) (st : MStep) : (mstepT u s st).toM = mstep u s.toM st := by
  cases st with
  | read S => rfl
  | load i => rfl
  | unload i =>
    show MState.mk _ _ _ = MState.mk _ _ _
    congr 1; exact tblFun_unload s.tbl i
  | start i es => show MState.mk _ _ _ = MState.mk _ _ _; congr 1; exact visitAllT_eq ..
  | stop i es => show MState.mk _ _ _ = MState.mk _ _ _; congr 1; exact visitAllT_eq ..
  | apply i e ts => show MState.mk _ _ _ = MState.mk _ _ _; congr 1; exact visitAllT_eq ..
  | unapply i e ts => show MState.mk _ _ _ = MState.mk _ _ _; congr 1; exact visitAllT_eq ..
  | changed i attr => show MState.mk _ _ _ = MState.mk _ _ _; congr 1; exact cascT_eq ..
  | reconfig cfg' => rfl

/-! ## 3. The finite re-packing of the registers -/

/-- Effect ids of the type of an item (whether or not the item is loaded). -/
def effsOf (u : Universe) (x : Item) : List Int := match type? u x.typeId with | some t => t.effects | none => []

/-- `(i, e)` names an item of the configuration and an effect of its type. -/
def Named (u : Universe) (cfg : Config) (i : Nat) (e : Int) : Prop := ∃ x ∈ cfg.items, x.id = i ∧ e ∈ effsOf u x

variable {cfg : Config} {d : Dyn}

theorem compactDyn_loaded (i : Nat) :
    (compactDyn u cfg d).loaded i = true ↔ d.loaded i = true ∧ ∃ x ∈ cfg.items, x.id = i := by
  show ((cfg.items.filter fun x => d.loaded x.id).map (·.id)).contains i = true ↔ _
  simp only [List.contains_iff_mem, List.mem_map, List.mem_filter]
  constructor
  · rintro ⟨x, ⟨hx, hl⟩, rfl⟩; exact ⟨hl, x, hx, rfl⟩
  · rintro ⟨hl, x, hx, rfl⟩; exact ⟨x, ⟨hx, hl⟩, rfl⟩

theorem compactDyn_on (i : Nat) (e : Int) :
    (compactDyn u cfg d).on i e = true ↔ d.on i e = true ∧ Named u cfg i e := by
  show (cfg.items.flatMap fun x => ((effsOf u x).filter fun e => d.on x.id e).map fun e => (x.id, e)).contains (i, e)
    = true ↔ _
  simp only [List.contains_iff_mem, List.mem_flatMap, List.mem_map, List.mem_filter, Prod.mk.injEq, Named]
  constructor
  · rintro ⟨x, hx, e', ⟨he', hon⟩, rfl, rfl⟩; exact ⟨hon, x, hx, rfl, he'⟩
  · rintro ⟨hon, x, hx, rfl, he'⟩; exact ⟨x, hx, e, ⟨he', hon⟩, rfl, rfl⟩

/-- The target table of `compactDyn`. -/
def tgtTbl (u : Universe) (cfg : Config) (d : Dyn) : List ((Nat × Int) × List Nat) :=
  cfg.items.flatMap fun x => (effsOf u x).filterMap fun e =>
    if (d.tgts x.id e).isEmpty then none else some ((x.id, e), d.tgts x.id e)

theorem mem_tgtTbl {p : (Nat × Int) × List Nat} :
    p ∈ tgtTbl u cfg d ↔ Named u cfg p.1.1 p.1.2 ∧ p.2 = d.tgts p.1.1 p.1.2 ∧ p.2 ≠ [] := by
  simp only [tgtTbl, List.mem_flatMap, List.mem_filterMap, Named]
  constructor
  · rintro ⟨x, hx, e, he, h⟩
    split at h
    · cases h
    · rename_i hne
      cases h
      exact ⟨⟨x, hx, rfl, he⟩, rfl, by simpa using hne⟩
  · rintro ⟨⟨x, hx, hi, he⟩, h2, hne⟩
    refine ⟨x, hx, p.1.2, he, ?_⟩
    rw [hi, ← h2, if_neg (by simpa using hne)]

theorem compactDyn_tgts (i : Nat) (e : Int) :
    (Named u cfg i e → (compactDyn u cfg d).tgts i e = d.tgts i e) ∧
    (¬ Named u cfg i e → (compactDyn u cfg d).tgts i e = []) := by
  show (_ → (((tgtTbl u cfg d).find? (·.1 == (i, e))).map (·.2)).getD [] = _) ∧
    (_ → (((tgtTbl u cfg d).find? (·.1 == (i, e))).map (·.2)).getD [] = _)
  cases hf : (tgtTbl u cfg d).find? (·.1 == (i, e)) with
  | none =>
    refine ⟨fun hn => ?_, fun _ => rfl⟩
    cases ht : d.tgts i e with
    | nil => rfl
    | cons t ts =>
      have := List.find?_eq_none.1 hf ((i, e), d.tgts i e) (mem_tgtTbl.2 ⟨hn, rfl, by rw [ht]; simp⟩)
      simp at this
  | some p =>
    have hp := mem_tgtTbl.1 (List.mem_of_find?_eq_some hf)
    have hk : p.1 = (i, e) := by simpa using List.find?_some hf
    rw [hk] at hp
    exact ⟨fun _ => hp.2.1, fun hn => absurd hp.1 hn⟩

/-- On the configuration's items and their types' effects `compactDyn` changes nothing. -/
theorem compactDyn_loaded_of_mem {x : Item} (hx : x ∈ cfg.items) :
    (compactDyn u cfg d).loaded x.id = d.loaded x.id := by
  cases h : d.loaded x.id with
  | true => exact (compactDyn_loaded x.id).2 ⟨h, x, hx, rfl⟩
  | false =>
    cases h' : (compactDyn u cfg d).loaded x.id with
    | false => rfl
    | true => rw [((compactDyn_loaded x.id).1 h').1] at h; cases h

theorem compactDyn_on_of_mem {x : Item} (hx : x ∈ cfg.items) {e : Int} (he : e ∈ effsOf u x) :
    (compactDyn u cfg d).on x.id e = d.on x.id e := by
  cases h : d.on x.id e with
  | true => exact (compactDyn_on x.id e).2 ⟨h, x, hx, rfl, he⟩
  | false =>
    cases h' : (compactDyn u cfg d).on x.id e with
    | false => rfl
    | true => rw [((compactDyn_on x.id e).1 h').1] at h; cases h

theorem compactDyn_tgts_of_mem {x : Item} (hx : x ∈ cfg.items) {e : Int} (he : e ∈ effsOf u x) :
    (compactDyn u cfg d).tgts x.id e = d.tgts x.id e :=
  (compactDyn_tgts x.id e).1 ⟨x, hx, rfl, he⟩

/-- The registers speak only about items of the configuration and effects of their types (what the messages
of the real code ever mention; the driver's state after every message). -/
structure DynFin (u : Universe) (cfg : Config) (d : Dyn) : Prop where
  loaded : ∀ i, d.loaded i = true → ∃ x ∈ cfg.items, x.id = i
  on : ∀ i e, d.on i e = true → Named u cfg i e
  tgts : ∀ i e, d.tgts i e ≠ [] → Named u cfg i e

/-- On such registers the re-packing is the identity. -/
theorem compactDyn_eq_self (h : DynFin u cfg d) : compactDyn u cfg d = d := by
  have hl : (compactDyn u cfg d).loaded = d.loaded := by
    funext i
    cases hd : d.loaded i with
    | true => exact (compactDyn_loaded i).2 ⟨hd, h.loaded i hd⟩
    | false =>
      cases h' : (compactDyn u cfg d).loaded i with
      | false => rfl
      | true => rw [((compactDyn_loaded i).1 h').1] at hd; cases hd
  have ho : (compactDyn u cfg d).on = d.on := by
    funext i e
    cases hd : d.on i e with
    | true => exact (compactDyn_on i e).2 ⟨hd, h.on i e hd⟩
    | false =>
      cases h' : (compactDyn u cfg d).on i e with
      | false => rfl
      | true => rw [((compactDyn_on i e).1 h').1] at hd; cases hd
  have ht : (compactDyn u cfg d).tgts = d.tgts := by
    funext i e
    by_cases hn : Named u cfg i e
    · exact (compactDyn_tgts i e).1 hn
    · rw [(compactDyn_tgts i e).2 hn]
      cases hd : d.tgts i e with
      | nil => rfl
      | cons t ts => exact absurd (h.tgts i e (by rw [hd]; simp)) hn
  cases hc : compactDyn u cfg d with
  | mk l o t =>
    cases d with
    | mk l' o' t' =>
      rw [hc] at hl ho ht
      simp only at hl ho ht
      rw [hl, ho, ht]

/-- The output of the re-packing is of that form, whatever the input. -/
theorem dynFin_compactDyn : DynFin u cfg (compactDyn u cfg d) where
  loaded := fun i h => ((compactDyn_loaded i).1 h).2
  on := fun i e h => ((compactDyn_on i e).1 h).2
  tgts := fun i e h => Classical.byContradiction fun hn => h ((compactDyn_tgts i e).2 hn)

/-- Messages that name items of the configuration and effects of their types (the only ones the real code
sends and the driver receives): `ItemLoaded` for a configured item, `EffectsStarted` for effects of the
item's type, `EffectApplied` with a non-empty target list for such an effect; a new configuration must still
contain what the registers mention. -/
def StepFin (u : Universe) (cfg : Config) (d : Dyn) : MStep → Prop
  | .load i => ∃ x ∈ cfg.items, x.id = i
  | .start i es => ∀ e ∈ es, Named u cfg i e
  | .apply i e ts => ts ≠ [] → Named u cfg i e
  | .reconfig cfg' => DynFin u cfg' d
  | _ => True

/-- Such messages keep the registers in that form. -/
theorem dynFin_mstep {s : MState} (h : DynFin u s.cfg s.dyn) (st : MStep) (ok : StepFin u s.cfg s.dyn st) :
    DynFin u (mstep u s st).cfg (mstep u s st).dyn := by
  cases st with
  | read S => exact h
  | load i =>
    refine ⟨fun j hj => ?_, h.on, h.tgts⟩
    by_cases hji : j = i
    · exact hji ▸ ok
    · exact h.loaded j (by simpa [mstep, hji] using hj)
  | unload i =>
    refine ⟨fun j hj => ?_, h.on, h.tgts⟩
    by_cases hji : j = i
    · simp [mstep, hji] at hj
    · exact h.loaded j (by simpa [mstep, hji] using hj)
  | start i es =>
    refine ⟨h.loaded, fun j e hj => ?_, h.tgts⟩
    by_cases hc : j = i ∧ e ∈ es
    · exact hc.1 ▸ ok e hc.2
    · exact h.on j e (by simpa [mstep, setOn, hc] using hj)
  | stop i es =>
    refine ⟨h.loaded, fun j e hj => ?_, h.tgts⟩
    by_cases hc : j = i ∧ e ∈ es
    · simp [mstep, setOn, hc] at hj
    · have hj' : (if j = i ∧ e ∈ es then false else s.dyn.on j e) = true := hj
      rw [if_neg hc] at hj'
      exact h.on j e hj'
  | apply i e ts =>
    refine ⟨h.loaded, h.on, fun j f hj => ?_⟩
    by_cases hc : j = i ∧ f = e
    · obtain ⟨rfl, rfl⟩ := hc
      by_cases hts : ts = []
      · exact h.tgts j f (by simpa [mstep, setTgts, hts] using hj)
      · exact ok hts
    · exact h.tgts j f (by simpa [mstep, setTgts, hc] using hj)
  | unapply i e ts =>
    refine ⟨h.loaded, h.on, fun j f hj => ?_⟩
    by_cases hc : j = i ∧ f = e
    · obtain ⟨rfl, rfl⟩ := hc
      refine h.tgts j f fun h0 => hj ?_
      simp [mstep, setTgts, h0]
    · exact h.tgts j f (by simpa [mstep, setTgts, hc] using hj)
  | changed i attr => exact h
  | reconfig cfg' => exact ok

/-- One message as the driver processes it (`Driver/Micro.lean`, `mdo`): the table twin of the step, then the
re-packing of the registers. -/
def mdoT (u : Universe) (s : TState) (st : MStep) : TState :=
  let s' := mstepT u s st
  { s' with dyn := compactDyn u s'.cfg s'.dyn }

/-- **The driver's message step is the model's**: on registers of the form `DynFin` (which it keeps), for a
message naming configured items and their effects, table step plus re-packing yield exactly `mstep`. -/
theorem mdoT_toM {s : TState} (h : DynFin u s.cfg s.dyn) (st : MStep) (ok : StepFin u s.cfg s.dyn st) :
    (mdoT u s st).toM = mstep u s.toM st ∧ DynFin u (mdoT u s st).cfg (mdoT u s st).dyn := by
  have hm := mstepT_toM (u := u) s st
  have hf := dynFin_mstep (s := s.toM) h st ok
  rw [← hm] at hf
  have hc : compactDyn u (mstepT u s st).cfg (mstepT u s st).dyn = (mstepT u s st).dyn := compactDyn_eq_self hf
  have : mdoT u s st = mstepT u s st := by
    show TState.mk _ _ _ = _
    rw [hc]
  rw [this]
  exact ⟨hm, hf⟩

/-- Whatever the registers, the re-packing does not change what the model computes from them for the
configuration's items: loaded flags, running effects, recorded targets. -/
theorem typeOf?_compactDyn {x : Item} (hx : x ∈ cfg.items) : typeOf? u (compactDyn u cfg d) x = typeOf? u d x := by
  unfold typeOf?; rw [compactDyn_loaded_of_mem hx]

theorem running_compactDyn {x : Item} (hx : x ∈ cfg.items) : running u (compactDyn u cfg d) x = running u d x := by
  unfold running typeEffects
  rw [typeOf?_compactDyn hx]
  cases ht : typeOf? u d x with
  | none => rfl
  | some ty =>
    refine List.filter_congr fun e he => ?_
    obtain ⟨k, hk, hke⟩ := List.mem_filterMap.1 he
    have hid : e.id = k := by simpa using List.find?_some hke
    have hty : type? u x.typeId = some ty := by
      unfold typeOf? at ht; split at ht
      · exact ht
      · cases ht
    exact compactDyn_on_of_mem hx (by unfold effsOf; rw [hty, hid]; exact hk)

theorem targetsOf_compactDyn {x : Item} (hx : x ∈ cfg.items) {e : Effect} (he : e ∈ running u d x) :
    targetsOf cfg (compactDyn u cfg d) x e = targetsOf cfg d x e := by
  unfold targetsOf
  obtain ⟨he, _⟩ := List.mem_filter.1 he
  unfold typeEffects at he
  cases ht : typeOf? u d x with
  | none => rw [ht] at he; cases he
  | some ty =>
    rw [ht] at he
    obtain ⟨k, hk, hke⟩ := List.mem_filterMap.1 he
    have hid : e.id = k := by simpa using List.find?_some hke
    have hty : type? u x.typeId = some ty := by
      unfold typeOf? at ht; split at ht
      · exact ht
      · cases ht
    rw [compactDyn_tgts_of_mem hx (by unfold effsOf; rw [hty, hid]; exact hk)]

end Eos.Micro
