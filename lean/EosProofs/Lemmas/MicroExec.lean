import EosModel.WorldMicroExec
import EosProofs.Lemmas.MicroAssembly
/-! The executable side of the message-level model (`EosModel/WorldMicroExec.lean`, run by
`Driver/Micro.lean`) computes what the theorems of `Props/C01World.lean` are about.

1. the table-backed cascade `cascT` / `visitT` / `visitAllT` is `casc` / `visit` / `visitAll` on the function
   `tblFun` of the table;
2. `mstepT` is `mstep` through `TState.toM`;
3. `compactDyn` (the finite re-packing of the registers the driver applies after every message) is the
   identity on registers that only speak about the configuration's items and their types' effects
   (`DynFin`), and messages naming such items and effects keep registers like that;
4. the executable read `readNode` returns the from-scratch value and fills a set of nodes that makes the
   read a legal `.read` step of the abstract machine. -/
namespace Eos.Micro
open Eos.World Eos.Calc

variable {u : Universe}

/-! ## 1. Tables -/

/-- Look-up in a table filtered by a predicate on the keys. -/
theorem tblFun_filter (p : Node → Bool) (T : Tbl) (n : Node) :
    tblFun (T.filter fun e => p e.1) n = if p n then tblFun T n else none := by
  unfold tblFun
  induction T with
  | nil => simp
  | cons e T ih =>
    by_cases hp : p e.1 = true
    · simp only [List.filter_cons, hp, if_true]
      by_cases he : e.1 = n
      · rw [List.find?_cons_of_pos (by simpa using he), List.find?_cons_of_pos (by simpa using he), ← he, if_pos hp]
      · rw [List.find?_cons_of_neg (by simpa using he), List.find?_cons_of_neg (by simpa using he)]; exact ih
    · simp only [List.filter_cons, hp, Bool.false_eq_true, if_false]
      by_cases he : e.1 = n
      · rw [ih, ← he, if_neg hp, if_neg hp]
      · rw [List.find?_cons_of_neg (by simpa using he)]; exact ih

theorem tblFun_drop (T : Tbl) (n : Node) : tblFun (T.drop n) = dropNode (tblFun T) n := by
  funext x
  refine (tblFun_filter (fun k => k != n) T x).trans ?_
  unfold dropNode
  by_cases h : x = n
  · simp [h]
  · simp [h]

theorem tblFun_unload (T : Tbl) (i : Nat) :
    tblFun (T.filter fun e => e.1.1 != i) = fun n => if n.1 = i then none else tblFun T n := by
  funext n
  refine (tblFun_filter (fun k => k.1 != i) T n).trans ?_
  by_cases h : n.1 = i
  · simp [h]
  · simp [h]

theorem foldl_tblFun {α : Type} (vT : Tbl → α → Tbl) (v : Cache → α → Cache)
    (h : ∀ T a, tblFun (vT T a) = v (tblFun T) a) (l : List α) (T : Tbl) :
    tblFun (l.foldl vT T) = l.foldl v (tblFun T) := by
  induction l generalizing T with
  | nil => rfl
  | cons a l ih => rw [List.foldl_cons, List.foldl_cons, ih, h]

/-- The table-backed cascade computes the cascade of the model. -/
theorem cascT_visitT_eq (cfg : Config) (d : Dyn) : ∀ fuel : Nat,
    (∀ (T : Tbl) (n : Node), tblFun (cascT u cfg d fuel T n) = casc u cfg d fuel (tblFun T) n) ∧
    (∀ (T : Tbl) (t : Node), tblFun (visitT u cfg d fuel T t) = visit u cfg d fuel (tblFun T) t) := by
  have hv : ∀ fuel, (∀ (T : Tbl) (n : Node), tblFun (cascT u cfg d fuel T n) = casc u cfg d fuel (tblFun T) n) →
      ∀ (T : Tbl) (t : Node), tblFun (visitT u cfg d fuel T t) = visit u cfg d fuel (tblFun T) t := by
    intro fuel hc T t
    rw [visitT, visit]
    cases hk : tblFun T t with
    | none => simp
    | some v => simp only [Option.isNone_some, Bool.false_eq_true, if_false, reduceCtorEq]; rw [hc, tblFun_drop]
  intro fuel
  induction fuel with
  | zero =>
    have hc : ∀ (T : Tbl) (n : Node), tblFun (cascT u cfg d 0 T n) = casc u cfg d 0 (tblFun T) n := by
      intro T n; rw [cascT, casc]
    exact ⟨hc, hv 0 hc⟩
  | succ f ih =>
    have hc : ∀ (T : Tbl) (n : Node),
        tblFun (cascT u cfg d (f + 1) T n) = casc u cfg d (f + 1) (tblFun T) n := by
      intro T n; rw [cascT, casc]
      exact foldl_tblFun _ _ ih.2 _ T
    exact ⟨hc, hv (f + 1) hc⟩

theorem cascT_eq (cfg : Config) (d : Dyn) (fuel : Nat) (T : Tbl) (n : Node) :
    tblFun (cascT u cfg d fuel T n) = casc u cfg d fuel (tblFun T) n := (cascT_visitT_eq cfg d fuel).1 T n

theorem visitT_eq (cfg : Config) (d : Dyn) (fuel : Nat) (T : Tbl) (t : Node) :
    tblFun (visitT u cfg d fuel T t) = visit u cfg d fuel (tblFun T) t := (cascT_visitT_eq cfg d fuel).2 T t

theorem visitAllT_eq (cfg : Config) (d : Dyn) (fuel : Nat) (T : Tbl) (l : List Node) :
    tblFun (visitAllT u cfg d fuel T l) = visitAll u cfg d fuel (tblFun T) l :=
  foldl_tblFun _ _ (visitT_eq cfg d fuel) l T

/-! ## 2. `mstepT` is `mstep` -/

/-- What the driver computes for a message on the table representation is the `mstep` of the model. -/
theorem mstepT_toM (s : TState) (st : MStep) : (mstepT u s st).toM = mstep u s.toM st := by
  cases st with
  | read S => rfl
  | load i => rfl
  | unload i =>
    show MState.mk _ _ _ = MState.mk _ _ _
    congr 1; exact tblFun_unload s.tbl i
  | start i es => show MState.mk _ _ _ = MState.mk _ _ _; congr 1; exact visitAllT_eq ..
  | stop i es => show MState.mk _ _ _ = MState.mk _ _ _; congr 1; exact visitAllT_eq ..
  | apply i e ts => show MState.mk _ _ _ = MState.mk _ _ _; congr 1; exact visitAllT_eq ..
  | unapply i e ts => show MState.mk _ _ _ = MState.mk _ _ _; congr 1; exact visitAllT_eq ..
  | changed i attr => show MState.mk _ _ _ = MState.mk _ _ _; congr 1; exact cascT_eq ..
  | buffset i e ms => rfl
  | reconfig cfg' => rfl

/-! ## 3. The finite re-packing of the registers -/

-- `effsOf u x` (effect ids of the type of an item, loaded or not) lives in `EosModel/WorldMicroExec.lean`.

/-- `(i, e)` names an item of the configuration and an effect of its type. -/
def Named (u : Universe) (cfg : Config) (i : Nat) (e : Int) : Prop := ∃ x ∈ cfg.items, x.id = i ∧ e ∈ effsOf u x

variable {cfg : Config} {d : Dyn}

theorem compactDyn_loaded (i : Nat) :
    (compactDyn u cfg d).loaded i = true ↔ d.loaded i = true ∧ ∃ x ∈ cfg.items, x.id = i := by
  show ((cfg.items.filter fun x => d.loaded x.id).map (·.id)).contains i = true ↔ _
  simp only [List.contains_iff_mem, List.mem_map, List.mem_filter]
  constructor
  · rintro ⟨x, ⟨hx, hl⟩, rfl⟩; exact ⟨hl, x, hx, rfl⟩
  · rintro ⟨hl, x, hx, rfl⟩; exact ⟨x, ⟨hx, hl⟩, rfl⟩

theorem compactDyn_on (i : Nat) (e : Int) :
    (compactDyn u cfg d).on i e = true ↔ d.on i e = true ∧ Named u cfg i e := by
  show (cfg.items.flatMap fun x => ((effsOf u x).filter fun e => d.on x.id e).map fun e => (x.id, e)).contains (i, e)
    = true ↔ _
  simp only [List.contains_iff_mem, List.mem_flatMap, List.mem_map, List.mem_filter, Prod.mk.injEq, Named]
  constructor
  · rintro ⟨x, hx, e', ⟨he', hon⟩, rfl, rfl⟩; exact ⟨hon, x, hx, rfl, he'⟩
  · rintro ⟨hon, x, hx, rfl, he'⟩; exact ⟨x, hx, e, ⟨he', hon⟩, rfl, rfl⟩

/-- The table `compactDyn` builds for a register `f` of lists per (item, effect): the non-empty entries of
the configuration's items and their types' effects. -/
def pairTbl {α : Type} (u : Universe) (cfg : Config) (f : Nat → Int → List α) : List ((Nat × Int) × List α) :=
  cfg.items.flatMap fun x => (effsOf u x).filterMap fun e =>
    if (f x.id e).isEmpty then none else some ((x.id, e), f x.id e)

theorem mem_pairTbl {α : Type} {f : Nat → Int → List α} {p : (Nat × Int) × List α} :
    p ∈ pairTbl u cfg f ↔ Named u cfg p.1.1 p.1.2 ∧ p.2 = f p.1.1 p.1.2 ∧ p.2 ≠ [] := by
  simp only [pairTbl, List.mem_flatMap, List.mem_filterMap, Named]
  constructor
  · rintro ⟨x, hx, e, he, h⟩
    split at h
    · cases h
    · rename_i hne
      cases h
      exact ⟨⟨x, hx, rfl, he⟩, rfl, by simpa using hne⟩
  · rintro ⟨⟨x, hx, hi, he⟩, h2, hne⟩
    refine ⟨x, hx, p.1.2, he, ?_⟩
    rw [hi, ← h2, if_neg (by simpa using hne)]

/-- Look-up in that table: the register's entry for a named pair, nothing otherwise. -/
theorem pairTbl_lookup {α : Type} (f : Nat → Int → List α) (i : Nat) (e : Int) :
    (Named u cfg i e → (((pairTbl u cfg f).find? (·.1 == (i, e))).map (·.2)).getD [] = f i e) ∧
    (¬ Named u cfg i e → (((pairTbl u cfg f).find? (·.1 == (i, e))).map (·.2)).getD [] = []) := by
  cases hf : (pairTbl u cfg f).find? (·.1 == (i, e)) with
  | none =>
    refine ⟨fun hn => ?_, fun _ => rfl⟩
    cases ht : f i e with
    | nil => rfl
    | cons t ts =>
      have := List.find?_eq_none.1 hf ((i, e), f i e) (mem_pairTbl.2 ⟨hn, rfl, by rw [ht]; simp⟩)
      simp at this
  | some p =>
    have hp := mem_pairTbl.1 (List.mem_of_find?_eq_some hf)
    have hk : p.1 = (i, e) := by simpa using List.find?_some hf
    rw [hk] at hp
    exact ⟨fun _ => hp.2.1, fun hn => absurd hp.1 hn⟩

/-- The target table of `compactDyn`. -/
def tgtTbl (u : Universe) (cfg : Config) (d : Dyn) : List ((Nat × Int) × List Nat) := pairTbl u cfg d.tgts

theorem mem_tgtTbl {p : (Nat × Int) × List Nat} :
    p ∈ tgtTbl u cfg d ↔ Named u cfg p.1.1 p.1.2 ∧ p.2 = d.tgts p.1.1 p.1.2 ∧ p.2 ≠ [] := mem_pairTbl

theorem compactDyn_tgts (i : Nat) (e : Int) :
    (Named u cfg i e → (compactDyn u cfg d).tgts i e = d.tgts i e) ∧
    (¬ Named u cfg i e → (compactDyn u cfg d).tgts i e = []) := pairTbl_lookup d.tgts i e

theorem compactDyn_bspecs (i : Nat) (e : Int) :
    (Named u cfg i e → (compactDyn u cfg d).bspecs i e = d.bspecs i e) ∧
    (¬ Named u cfg i e → (compactDyn u cfg d).bspecs i e = []) := pairTbl_lookup d.bspecs i e

/-- On the configuration's items and their types' effects `compactDyn` changes nothing. -/
theorem compactDyn_loaded_of_mem {x : Item} (hx : x ∈ cfg.items) :
    (compactDyn u cfg d).loaded x.id = d.loaded x.id := by
  cases h : d.loaded x.id with
  | true => exact (compactDyn_loaded x.id).2 ⟨h, x, hx, rfl⟩
  | false =>
    cases h' : (compactDyn u cfg d).loaded x.id with
    | false => rfl
    | true => rw [((compactDyn_loaded x.id).1 h').1] at h; cases h

theorem compactDyn_on_of_mem {x : Item} (hx : x ∈ cfg.items) {e : Int} (he : e ∈ effsOf u x) :
    (compactDyn u cfg d).on x.id e = d.on x.id e := by
  cases h : d.on x.id e with
  | true => exact (compactDyn_on x.id e).2 ⟨h, x, hx, rfl, he⟩
  | false =>
    cases h' : (compactDyn u cfg d).on x.id e with
    | false => rfl
    | true => rw [((compactDyn_on x.id e).1 h').1] at h; cases h

theorem compactDyn_tgts_of_mem {x : Item} (hx : x ∈ cfg.items) {e : Int} (he : e ∈ effsOf u x) :
    (compactDyn u cfg d).tgts x.id e = d.tgts x.id e :=
  (compactDyn_tgts x.id e).1 ⟨x, hx, rfl, he⟩

theorem compactDyn_bspecs_of_mem {x : Item} (hx : x ∈ cfg.items) {e : Int} (he : e ∈ effsOf u x) :
    (compactDyn u cfg d).bspecs x.id e = d.bspecs x.id e :=
  (compactDyn_bspecs x.id e).1 ⟨x, hx, rfl, he⟩

/-- The registers speak only about items of the configuration and effects of their types (what the messages
of the real code ever mention; the driver's state after every message). -/
structure DynFin (u : Universe) (cfg : Config) (d : Dyn) : Prop where
  loaded : ∀ i, d.loaded i = true → ∃ x ∈ cfg.items, x.id = i
  on : ∀ i e, d.on i e = true → Named u cfg i e
  tgts : ∀ i e, d.tgts i e ≠ [] → Named u cfg i e
  bspecs : ∀ i e, d.bspecs i e ≠ [] → Named u cfg i e

/-- On such registers the re-packing is the identity. -/
theorem compactDyn_eq_self (h : DynFin u cfg d) : compactDyn u cfg d = d := by
  have hl : (compactDyn u cfg d).loaded = d.loaded := by
    funext i
    cases hd : d.loaded i with
    | true => exact (compactDyn_loaded i).2 ⟨hd, h.loaded i hd⟩
    | false =>
      cases h' : (compactDyn u cfg d).loaded i with
      | false => rfl
      | true => rw [((compactDyn_loaded i).1 h').1] at hd; cases hd
  have ho : (compactDyn u cfg d).on = d.on := by
    funext i e
    cases hd : d.on i e with
    | true => exact (compactDyn_on i e).2 ⟨hd, h.on i e hd⟩
    | false =>
      cases h' : (compactDyn u cfg d).on i e with
      | false => rfl
      | true => rw [((compactDyn_on i e).1 h').1] at hd; cases hd
  have ht : (compactDyn u cfg d).tgts = d.tgts := by
    funext i e
    by_cases hn : Named u cfg i e
    · exact (compactDyn_tgts i e).1 hn
    · rw [(compactDyn_tgts i e).2 hn]
      cases hd : d.tgts i e with
      | nil => rfl
      | cons t ts => exact absurd (h.tgts i e (by rw [hd]; simp)) hn
  have hb : (compactDyn u cfg d).bspecs = d.bspecs := by
    funext i e
    by_cases hn : Named u cfg i e
    · exact (compactDyn_bspecs i e).1 hn
    · rw [(compactDyn_bspecs i e).2 hn]
      cases hd : d.bspecs i e with
      | nil => rfl
      | cons t ts => exact absurd (h.bspecs i e (by rw [hd]; simp)) hn
  cases hc : compactDyn u cfg d with
  | mk l o t b =>
    cases d with
    | mk l' o' t' b' =>
      rw [hc] at hl ho ht hb
      simp only at hl ho ht hb
      rw [hl, ho, ht, hb]

/-- The output of the re-packing is of that form, whatever the input. -/
theorem dynFin_compactDyn : DynFin u cfg (compactDyn u cfg d) where
  loaded := fun i h => ((compactDyn_loaded i).1 h).2
  on := fun i e h => ((compactDyn_on i e).1 h).2
  tgts := fun i e h => Classical.byContradiction fun hn => h ((compactDyn_tgts i e).2 hn)
  bspecs := fun i e h => Classical.byContradiction fun hn => h ((compactDyn_bspecs i e).2 hn)

/-- Messages that name items of the configuration and effects of their types (the only ones the real code
sends and the driver receives): `ItemLoaded` for a configured item, `EffectsStarted` for effects of the
item's type, `EffectApplied` with a non-empty target list for such an effect, warfare-buff modifiers registered
for such an effect; a new configuration must still contain what the registers mention. -/
def StepFin (u : Universe) (cfg : Config) (d : Dyn) : MStep → Prop
  | .load i => ∃ x ∈ cfg.items, x.id = i
  | .start i es => ∀ e ∈ es, Named u cfg i e
  | .apply i e ts => ts ≠ [] → Named u cfg i e
  | .buffset i e ms => ms ≠ [] → Named u cfg i e
  | .reconfig cfg' => DynFin u cfg' d
  | _ => True

/-- Such messages keep the registers in that form. -/
theorem dynFin_mstep {s : MState} (h : DynFin u s.cfg s.dyn) (st : MStep) (ok : StepFin u s.cfg s.dyn st) :
    DynFin u (mstep u s st).cfg (mstep u s st).dyn := by
  cases st with
  | read S => exact h
  | load i =>
    refine ⟨fun j hj => ?_, h.on, h.tgts, h.bspecs⟩
    by_cases hji : j = i
    · exact hji ▸ ok
    · exact h.loaded j (by simpa [mstep, hji] using hj)
  | unload i =>
    refine ⟨fun j hj => ?_, h.on, h.tgts, h.bspecs⟩
    by_cases hji : j = i
    · simp [mstep, hji] at hj
    · exact h.loaded j (by simpa [mstep, hji] using hj)
  | start i es =>
    refine ⟨h.loaded, fun j e hj => ?_, h.tgts, h.bspecs⟩
    by_cases hc : j = i ∧ e ∈ es
    · exact hc.1 ▸ ok e hc.2
    · exact h.on j e (by simpa [mstep, setOn, hc] using hj)
  | stop i es =>
    refine ⟨h.loaded, fun j e hj => ?_, h.tgts, h.bspecs⟩
    by_cases hc : j = i ∧ e ∈ es
    · simp [mstep, setOn, hc] at hj
    · have hj' : (if j = i ∧ e ∈ es then false else s.dyn.on j e) = true := hj
      rw [if_neg hc] at hj'
      exact h.on j e hj'
  | apply i e ts =>
    refine ⟨h.loaded, h.on, fun j f hj => ?_, h.bspecs⟩
    by_cases hc : j = i ∧ f = e
    · obtain ⟨rfl, rfl⟩ := hc
      by_cases hts : ts = []
      · exact h.tgts j f (by simpa [mstep, setTgts, hts] using hj)
      · exact ok hts
    · exact h.tgts j f (by simpa [mstep, setTgts, hc] using hj)
  | unapply i e ts =>
    refine ⟨h.loaded, h.on, fun j f hj => ?_, h.bspecs⟩
    by_cases hc : j = i ∧ f = e
    · obtain ⟨rfl, rfl⟩ := hc
      refine h.tgts j f fun h0 => hj ?_
      simp [mstep, setTgts, h0]
    · exact h.tgts j f (by simpa [mstep, setTgts, hc] using hj)
  | changed i attr => exact h
  | buffset i e ms =>
    refine ⟨h.loaded, h.on, h.tgts, fun j f hj => ?_⟩
    have hj' : (if j = i ∧ f = e then ms else s.dyn.bspecs j f) ≠ [] := hj
    by_cases hc : j = i ∧ f = e
    · rw [if_pos hc] at hj'
      obtain ⟨rfl, rfl⟩ := hc
      exact ok hj'
    · rw [if_neg hc] at hj'
      exact h.bspecs j f hj'
  | reconfig cfg' => exact ok

/-- **The driver's message step is the model's**: on registers of the form `DynFin` (which it keeps), for a
message naming configured items and their effects, table step plus re-packing yield exactly `mstep`. -/
theorem mdoT_toM {s : TState} (h : DynFin u s.cfg s.dyn) (st : MStep) (ok : StepFin u s.cfg s.dyn st) :
    (mdoT u s st).toM = mstep u s.toM st ∧ DynFin u (mdoT u s st).cfg (mdoT u s st).dyn := by
  have hm := mstepT_toM (u := u) s st
  have hf := dynFin_mstep (s := s.toM) h st ok
  rw [← hm] at hf
  have hc : compactDyn u (mstepT u s st).cfg (mstepT u s st).dyn = (mstepT u s st).dyn := compactDyn_eq_self hf
  have : mdoT u s st = mstepT u s st := by
    show TState.mk _ _ _ = _
    rw [hc]
  rw [this]
  exact ⟨hm, hf⟩

/-- A message history all of whose messages name configured items and their effects. -/
def RunFin (u : Universe) (s : MState) : List MStep → Prop
  | [] => True
  | st :: rest => StepFin u s.cfg s.dyn st ∧ RunFin u (mstep u s st) rest

/-- Along such a history the driver's state is the model's. -/
theorem mdoT_run : ∀ (steps : List MStep) (s : TState), DynFin u s.cfg s.dyn → RunFin u s.toM steps →
    (steps.foldl (mdoT u) s).toM = steps.foldl (mstep u) s.toM ∧
    DynFin u (steps.foldl (mdoT u) s).cfg (steps.foldl (mdoT u) s).dyn
  | [], _, h, _ => ⟨rfl, h⟩
  | st :: rest, s, h, ok => by
    obtain ⟨h1, h2⟩ := mdoT_toM h st ok.1
    rw [List.foldl_cons, List.foldl_cons, ← h1]
    exact mdoT_run rest (mdoT u s st) h2 (h1 ▸ ok.2)

/-! ### The executable side-condition check `stepOKb` is `StepOK`

`stepOKb` ranges over the table's entries and over the named pairs (items of the configuration, effect ids their
types list), `L.StepOK` over all nodes, items and effect ids; on registers of the form `DynFin` — every state the
driver is in — that is the same. -/

/-- A key with a value in the table's look-up function is the key of an entry of the table. -/
theorem mem_of_tblFun_ne_none {T : Tbl} {n : Node} (h : tblFun T n ≠ none) : ∃ p ∈ T, p.1 = n := by
  unfold tblFun at h
  cases hf : T.find? (·.1 == n) with
  | none => rw [hf] at h; exact absurd rfl h
  | some p => exact ⟨p, List.mem_of_find?_eq_some hf, by simpa using List.find?_some hf⟩

theorem tblFun_ne_none_of_mem {T : Tbl} {p : Node × Rat} (h : p ∈ T) : tblFun T p.1 ≠ none := by
  unfold tblFun
  cases hf : T.find? (·.1 == p.1) with
  | none => have := List.find?_eq_none.1 hf p h; simp at this
  | some q => simp

theorem noneOnb_iff {s : TState} {i : Nat} :
    noneOnb u s i = true ↔ ∀ e, Named u s.cfg i e → s.dyn.on i e = false := by
  unfold noneOnb
  simp only [List.all_eq_true, Bool.or_eq_true, bne_iff_ne, Bool.not_eq_true']
  constructor
  · rintro h e ⟨x, hx, hxi, he⟩
    rcases h x hx with hne | hall
    · exact absurd hxi hne
    · exact hall e he
  · intro h x hx
    by_cases hxi : x.id = i
    · exact Or.inr fun e he => h e ⟨x, hx, hxi, he⟩
    · exact Or.inl hxi

theorem notTargetb_iff {s : TState} {i : Nat} :
    notTargetb u s i = true ↔ ∀ a e, Named u s.cfg a e → i ∉ s.dyn.tgts a e := by
  unfold notTargetb
  simp only [List.all_eq_true, Bool.not_eq_true', List.contains_eq_mem, decide_eq_false_iff_not]
  constructor
  · rintro h a e ⟨x, hx, rfl, he⟩; exact h x hx e he
  · intro h x hx e he; exact h x.id e ⟨x, hx, rfl, he⟩

/-- On `DynFin` registers, "no named effect of `i` runs" is "no effect of `i` runs". -/
theorem noneOn_of_dynFin {s : TState} (hfin : DynFin u s.cfg s.dyn) {i : Nat} (h : noneOnb u s i = true) :
    ∀ e, s.dyn.on i e = false := by
  intro e
  cases hon : s.dyn.on i e with
  | false => rfl
  | true => rw [noneOnb_iff.1 h e (hfin.on i e hon)] at hon; cases hon

/-- On `DynFin` registers, "`i` is no recorded target of a named projector" is "`i` is no recorded target". -/
theorem notTarget_of_dynFin {s : TState} (hfin : DynFin u s.cfg s.dyn) {i : Nat} (h : notTargetb u s i = true) :
    ∀ a e, i ∉ s.dyn.tgts a e :=
  fun a e hi => notTargetb_iff.1 h a e (hfin.tgts a e (List.ne_nil_of_mem hi)) hi

/-- **Soundness of the executable check**: on registers of the form `DynFin`, a message (anything but a
`reconfig`, whose side condition is not executable) for which `stepOKb` answers `true` satisfies the side
conditions `StepOK` of the legality theorems, whatever the graph family `W`. -/
theorem stepOKb_sound {s : TState} (hfin : DynFin u s.cfg s.dyn) {st : MStep}
    (hst : ∀ cfg', st ≠ .reconfig cfg') (h : stepOKb u s st = true) (W : Config × Dyn → DepCache.Graph Node Rat) :
    L.StepOK W s.toM st := by
  cases st with
  | read S => trivial
  | load i =>
    simp only [stepOKb, Bool.and_eq_true] at h
    obtain ⟨⟨h1, h2⟩, h3⟩ := h
    refine ⟨fun n hn => ?_, noneOn_of_dynFin hfin h2, notTarget_of_dynFin hfin h3⟩
    obtain ⟨p, hp, rfl⟩ := mem_of_tblFun_ne_none (T := s.tbl) hn
    simpa using List.all_eq_true.1 h1 p hp
  | unload i =>
    simp only [stepOKb, Bool.and_eq_true] at h
    exact ⟨noneOn_of_dynFin hfin h.1, notTarget_of_dynFin hfin h.2⟩
  | start i es =>
    intro e he
    show s.dyn.tgts i e = []
    simpa using List.all_eq_true.1 h e he
  | stop i es =>
    intro e he
    show s.dyn.tgts i e = []
    simpa using List.all_eq_true.1 h e he
  | apply i e ts =>
    intro j hj t ht
    have := List.all_eq_true.1 h j hj
    simp only [TState.toM] at ht
    simpa [ht] using this
  | unapply i e ts => trivial
  | changed i attr => trivial
  | buffset i e ms =>
    show s.dyn.tgts i e = []
    simpa [stepOKb] using h
  | reconfig cfg' => exact absurd rfl (hst cfg')

/-- **Completeness** (no hypothesis on the registers): a message that satisfies `StepOK` passes the check. -/
theorem stepOKb_complete {s : TState} {st : MStep} {W : Config × Dyn → DepCache.Graph Node Rat}
    (ok : L.StepOK W s.toM st) : stepOKb u s st = true := by
  cases st with
  | read S => rfl
  | load i =>
    obtain ⟨h1, h2, h3⟩ := ok
    simp only [stepOKb, Bool.and_eq_true]
    refine ⟨⟨List.all_eq_true.2 fun p hp => ?_, noneOnb_iff.2 fun e _ => h2 e⟩,
      notTargetb_iff.2 fun a e _ => h3 a e⟩
    simpa using h1 p.1 (tblFun_ne_none_of_mem hp)
  | unload i =>
    simp only [stepOKb, Bool.and_eq_true]
    exact ⟨noneOnb_iff.2 fun e _ => ok.1 e, notTargetb_iff.2 fun a e _ => ok.2 a e⟩
  | start i es =>
    refine List.all_eq_true.2 fun e he => ?_
    have : s.dyn.tgts i e = [] := ok e he
    simp [this]
  | stop i es =>
    refine List.all_eq_true.2 fun e he => ?_
    have : s.dyn.tgts i e = [] := ok e he
    simp [this]
  | apply i e ts =>
    refine List.all_eq_true.2 fun j hj => ?_
    cases ht : item? s.cfg j with
    | none => rfl
    | some t => exact ok j hj t ht
  | unapply i e ts => rfl
  | changed i attr => rfl
  | buffset i e ms =>
    have : s.dyn.tgts i e = [] := ok
    simp [stepOKb, this]
  | reconfig cfg' => rfl

/-- On `DynFin` registers the check decides `StepOK` for every message but `reconfig`. -/
theorem stepOKb_iff {s : TState} (hfin : DynFin u s.cfg s.dyn) {st : MStep}
    (hst : ∀ cfg', st ≠ .reconfig cfg') (W : Config × Dyn → DepCache.Graph Node Rat) :
    stepOKb u s st = true ↔ L.StepOK W s.toM st :=
  ⟨fun h => stepOKb_sound hfin hst h W, stepOKb_complete⟩

theorem namedb_iff {i : Nat} {e : Int} : namedb u cfg i e = true ↔ Named u cfg i e := by
  unfold namedb Named
  simp only [List.any_eq_true, Bool.and_eq_true, beq_iff_eq, List.contains_iff_mem]

/-- The executable form of `StepFin` decides it (every message but `reconfig`). -/
theorem stepFinb_iff {s : TState} {st : MStep} (hst : ∀ cfg', st ≠ .reconfig cfg') :
    stepFinb u s st = true ↔ StepFin u s.cfg s.dyn st := by
  cases st with
  | read S => exact ⟨fun _ => trivial, fun _ => rfl⟩
  | load i =>
    show (s.cfg.items.any fun x => x.id == i) = true ↔ ∃ x ∈ s.cfg.items, x.id = i
    simp only [List.any_eq_true, beq_iff_eq]
  | unload i => exact ⟨fun _ => trivial, fun _ => rfl⟩
  | start i es =>
    show (es.all fun e => namedb u s.cfg i e) = true ↔ ∀ e ∈ es, Named u s.cfg i e
    simp only [List.all_eq_true, namedb_iff]
  | stop i es => exact ⟨fun _ => trivial, fun _ => rfl⟩
  | apply i e ts =>
    show (ts.isEmpty || namedb u s.cfg i e) = true ↔ (ts ≠ [] → Named u s.cfg i e)
    rw [Bool.or_eq_true, namedb_iff, List.isEmpty_iff]
    exact ⟨fun h hne => h.resolve_left hne, fun h => (Classical.em (ts = [])).imp_right h⟩
  | unapply i e ts => exact ⟨fun _ => trivial, fun _ => rfl⟩
  | changed i attr => exact ⟨fun _ => trivial, fun _ => rfl⟩
  | buffset i e ms =>
    show (ms.isEmpty || namedb u s.cfg i e) = true ↔ (ms ≠ [] → Named u s.cfg i e)
    rw [Bool.or_eq_true, namedb_iff, List.isEmpty_iff]
    exact ⟨fun h hne => h.resolve_left hne, fun h => (Classical.em (ms = [])).imp_right h⟩
  | reconfig cfg' => exact absurd rfl (hst cfg')

theorem rcFinb_iff {s : TState} {cfg' : Config} :
    rcFinb u s cfg' = true ↔ ∀ x ∈ s.cfg.items,
      (s.dyn.loaded x.id = true → ∃ y ∈ cfg'.items, y.id = x.id) ∧
      ∀ e ∈ effsOf u x, (s.dyn.on x.id e = true ∨ s.dyn.tgts x.id e ≠ [] ∨ s.dyn.bspecs x.id e ≠ []) →
        Named u cfg' x.id e := by
  unfold rcFinb
  simp only [List.all_eq_true, Bool.and_eq_true, Bool.or_eq_true, Bool.not_eq_true', List.any_eq_true,
    beq_iff_eq, List.isEmpty_iff, namedb_iff]
  constructor
  · intro h x hx
    obtain ⟨h1, h2⟩ := h x hx
    refine ⟨fun hl => h1.resolve_left (by rw [hl]; exact Bool.noConfusion), fun e he hc => ?_⟩
    rcases h2 e he with ⟨⟨ho, ht⟩, hb⟩ | hn
    · rcases hc with hc | hc | hc
      · rw [ho] at hc; cases hc
      · exact absurd ht hc
      · exact absurd hb hc
    · exact hn
  · intro h x hx
    obtain ⟨h1, h2⟩ := h x hx
    refine ⟨?_, fun e he => ?_⟩
    · cases hl : s.dyn.loaded x.id with
      | false => exact Or.inl rfl
      | true => exact Or.inr (h1 hl)
    · by_cases hc : s.dyn.on x.id e = true ∨ s.dyn.tgts x.id e ≠ [] ∨ s.dyn.bspecs x.id e ≠ []
      · exact Or.inr (h2 e he hc)
      · refine Or.inl ⟨⟨?_, ?_⟩, ?_⟩
        · cases ho : s.dyn.on x.id e with
          | false => rfl
          | true => exact absurd (Or.inl ho) hc
        · exact Classical.byContradiction fun ht => hc (Or.inr (Or.inl ht))
        · exact Classical.byContradiction fun hb => hc (Or.inr (Or.inr hb))

/-- **The executable `RC` check is sound**: registers of the form `DynFin` for the old configuration that pass
`rcFinb` are of that form for the new one (the `reconfig` clause of `StepFin`). -/
theorem rcFinb_sound {s : TState} (hfin : DynFin u s.cfg s.dyn) {cfg' : Config} (h : rcFinb u s cfg' = true) :
    DynFin u cfg' s.dyn := by
  have h' := rcFinb_iff.1 h
  refine ⟨fun i hi => ?_, fun i e hi => ?_, fun i e hi => ?_, fun i e hi => ?_⟩
  · obtain ⟨x, hx, rfl⟩ := hfin.loaded i hi
    exact (h' x hx).1 hi
  · obtain ⟨x, hx, rfl, he⟩ := hfin.on i e hi
    exact (h' x hx).2 e he (Or.inl hi)
  · obtain ⟨x, hx, rfl, he⟩ := hfin.tgts i e hi
    exact (h' x hx).2 e he (Or.inr (Or.inl hi))
  · obtain ⟨x, hx, rfl, he⟩ := hfin.bspecs i e hi
    exact (h' x hx).2 e he (Or.inr (Or.inr hi))

/-- ... and complete (no hypothesis on the old configuration). -/
theorem rcFinb_complete {s : TState} {cfg' : Config} (h : DynFin u cfg' s.dyn) : rcFinb u s cfg' = true :=
  rcFinb_iff.2 fun x _ => ⟨fun hl => h.loaded x.id hl, fun e _ hc => by
    rcases hc with hc | hc | hc
    · exact h.on x.id e hc
    · exact h.tgts x.id e hc
    · exact h.bspecs x.id e hc⟩

/-- Whatever the registers, the re-packing does not change what the model computes from them for the
configuration's items: loaded flags, running effects, recorded targets. -/
theorem typeOf?_compactDyn {x : Item} (hx : x ∈ cfg.items) : typeOf? u (compactDyn u cfg d) x = typeOf? u d x := by
  unfold typeOf?; rw [compactDyn_loaded_of_mem hx]

theorem running_compactDyn {x : Item} (hx : x ∈ cfg.items) : running u (compactDyn u cfg d) x = running u d x := by
  unfold running typeEffects
  rw [typeOf?_compactDyn hx]
  cases ht : typeOf? u d x with
  | none => rfl
  | some ty =>
    refine List.filter_congr fun e he => ?_
    obtain ⟨k, hk, hke⟩ := List.mem_filterMap.1 he
    have hid : e.id = k := by simpa using List.find?_some hke
    have hty : type? u x.typeId = some ty := by
      unfold typeOf? at ht; split at ht
      · exact ht
      · cases ht
    exact compactDyn_on_of_mem hx (by unfold effsOf; rw [hty, hid]; exact hk)

theorem targetsOf_compactDyn {x : Item} (hx : x ∈ cfg.items) {e : Effect} (he : e ∈ running u d x) :
    targetsOf cfg (compactDyn u cfg d) x e = targetsOf cfg d x e := by
  unfold targetsOf
  obtain ⟨he, _⟩ := List.mem_filter.1 he
  unfold typeEffects at he
  cases ht : typeOf? u d x with
  | none => rw [ht] at he; cases he
  | some ty =>
    rw [ht] at he
    obtain ⟨k, hk, hke⟩ := List.mem_filterMap.1 he
    have hid : e.id = k := by simpa using List.find?_some hke
    have hty : type? u x.typeId = some ty := by
      unfold typeOf? at ht; split at ht
      · exact ht
      · cases ht
    rw [compactDyn_tgts_of_mem hx (by unfold effsOf; rw [hty, hid]; exact hk)]

/-! ## 4. The executable read

`readNode` is split into its body with the recursive call abstracted (`readBody`, `readCalc`, `gstep`); the
body is analysed once, the induction on the fuel is then three lines. -/

section read
variable (u) (immune limited : List Int) (pen : Nat → Rat)

/-- One step of `readNode`'s fold over the affector specs, with the recursive read abstracted as `rd`. -/
def gstep (rd : Cache → Item → Int → Cache × Val) (cfg : Config) (d : Dyn) (y : Item)
    (st : Cache × Except Val (List Mod)) (sp : Spec) : Cache × Except Val (List Mod) :=
  match st.2 with
  | .error _ => st
  | .ok l =>
    let r1 := rd st.1 sp.a sp.m.srcAttr
    match r1.2 with
    | .absent => (r1.1, .ok l)
    | .ok v =>
      let mk (rr : Rat) : Mod :=
        { op := sp.m.op, value := v, resist := rr, agg := sp.m.agg, aggKey := sp.m.aggKey,
          immune := immuneOf u d immune sp.a }
      (match resistRead cfg sp.e y with
      | none => (r1.1, .ok (l ++ [mk 1]))
      | some (c, r) =>
        let r2 := rd r1.1 c r
        match r2.2 with
        | .ok rr => (r2.1, .ok (l ++ [mk rr]))
        | .absent => (r2.1, .ok (l ++ [mk 1]))
        | e => (r2.1, .error e))
    | e => (r1.1, .error e)

/-- `readNode`'s calculation of an uncached node with type `ty` and base value `b`. -/
def readCalc (rd : Cache → Item → Int → Cache × Val) (cfg : Config) (d : Dyn) (K : Cache) (y : Item) (a : Int)
    (am : AttrMeta) (ty : ItemType) (b : Rat) : Cache × Val :=
  let g := (specsOn u cfg d y ty am.id).foldl (gstep u immune rd cfg d y) (K, Except.ok [])
  match g.2 with
  | .error e => (g.1, e)
  | .ok mods =>
    match normAll am.stackable mods with
    | .error _ => (g.1, .divZero)
    | .ok _ =>
    let c : Cache × Except Val (Option Rat) := match am.maxAttr with
      | none => (g.1, .ok none)
      | some mx =>
        let r3 := rd g.1 y mx
        match r3.2 with
        | .ok cv => (r3.1, .ok (some cv))
        | .absent => (r3.1, .ok none)
        | e => (r3.1, .error e)
    match c.2 with
    | .error e => (c.1, e)
    | .ok cap =>
      match calculate pen am.stackable am.hig b mods cap (limited.contains am.id) with
      | .ok v => ((fun k => if k = (y.id, a) then some v else c.1 k), .ok v)
      | .error _ => (c.1, .divZero)

/-- The body of `readNode` with the recursive read abstracted as `rd`. -/
def readBody (rd : Cache → Item → Int → Cache × Val) (cfg : Config) (d : Dyn) (K : Cache) (y : Item) (a : Int) :
    Cache × Val :=
  if y.kind == .skill && a == 280 then (K, match y.level with | some l => .ok l | none => .absent)
  else match attrMeta? u a with
  | none => (K, .absent)
  | some am =>
    match K (y.id, a) with
    | some v => (K, .ok v)
    | none =>
      match typeOf? u d y with
      | none => (K, .absent)
      | some ty =>
        match baseOf ty am with
        | none => (K, .absent)
        | some b => readCalc u immune limited pen rd cfg d K y a am ty b

theorem readNode_succ (f : Nat) (cfg : Config) (d : Dyn) (K : Cache) (y : Item) (a : Int) :
    readNode u immune limited pen (f + 1) cfg d K y a =
      readBody u immune limited pen (readNode u immune limited pen f cfg d) cfg d K y a := by
  rfl

/-! ### What a threaded cache has to satisfy -/

variable {u immune limited pen}

/-- Cached values are from-scratch values. -/
def Coh (σ : Node → Option Rat) (K : Cache) : Prop := ∀ n v, K n = some v → σ n = some v
/-- Entries are only added. -/
def Le (K K' : Cache) : Prop := ∀ n v, K n = some v → K' n = some v
/-- Closed under the valued dependencies that have a value. -/
def ClosedV (u : Universe) (cfg : Config) (d : Dyn) (σ : Node → Option Rat) (K : Cache) : Prop :=
  ∀ n, K n ≠ none → ∀ m ∈ depsV u cfg d n, σ m ≠ none → K m ≠ none
/-- A valued node with a value is cached. -/
def Stored (u : Universe) (cfg : Config) (σ : Node → Option Rat) (K : Cache) (m : Node) : Prop :=
  valued u cfg m = true → σ m ≠ none → K m ≠ none

/-- Whenever the source attribute of a resisted affector spec reads as absent, the resistance attribute has
no value either.  `get_modifications` (and `readNode`) read the resistance attribute only after the source
attribute had a value, while `deps` lists it unconditionally: without this a read can cache a node and leave
a valued dependency of it uncached. -/
def ResistSrcOK (u : Universe) (cfg : Config) (d : Dyn) (σ : Node → Option Rat) : Prop :=
  ∀ x ∈ cfg.items, ∀ tx, typeOf? u d x = some tx → ∀ attr, ∀ s ∈ specsOn u cfg d x tx attr, ∀ c r,
    resistRead cfg s.e x = some (c, r) → readerOf u σ s.a s.m.srcAttr = .absent → σ (c.id, r) = none

/-- Standing hypotheses of the read: unique item ids, rank-well-formed universe, `σ` is the fixed point of the
local evaluation (the from-scratch values), no calculation divides by zero; `P` switches the closedness part
on (`P := True` needs `ResistSrcOK`) or off (`P := False`). -/
structure ReadCtx (u : Universe) (immune limited : List Int) (pen : Nat → Rat) (cfg : Config) (d : Dyn)
    (σ : Node → Option Rat) (P : Prop) : Prop where
  uniq : UniqueIds cfg
  wf : rankWF u = true
  fix : ∀ n, σ n = evalD u cfg d immune limited pen n σ
  ef : ∀ x ∈ cfg.items, ∀ am ∈ u.attrs, valueOfD u cfg d immune limited pen (readerOf u σ) x am ≠ .divZero
  rs : P → ResistSrcOK u cfg d σ

def InvR (u : Universe) (cfg : Config) (d : Dyn) (σ : Node → Option Rat) (P : Prop) (K : Cache) : Prop :=
  Coh σ K ∧ (P → ClosedV u cfg d σ K)

/-- What a (recursive) read of `(y, a)` from cache `K` has to deliver. -/
def GoodRead (u : Universe) (cfg : Config) (d : Dyn) (σ : Node → Option Rat) (P : Prop) (K : Cache) (y : Item)
    (a : Int) (r : Cache × Val) : Prop :=
  r.2 = readerOf u σ y a ∧ InvR u cfg d σ P r.1 ∧ Le K r.1 ∧ Stored u cfg σ r.1 (y.id, a)

/-- Enough fuel for attribute `a`. -/
def FuelOK (u : Universe) (f : Nat) (a : Int) : Prop :=
  0 < f ∧ ((attrMeta? u a).isSome = true → (u.attrs.map (·.id)).idxOf a + 2 ≤ f)

variable {σ : Node → Option Rat} {P : Prop}

theorem Le.refl (K : Cache) : Le K K := fun _ _ h => h
theorem Le.trans {K K' K'' : Cache} (h : Le K K') (h' : Le K' K'') : Le K K'' := fun n v hn => h' n v (h n v hn)
theorem Le.ne_none {K K' : Cache} (h : Le K K') {n : Node} (hn : K n ≠ none) : K' n ≠ none := by
  cases hk : K n with
  | none => exact absurd hk hn
  | some v => rw [h n v hk]; exact Option.some_ne_none v
theorem Stored.mono {K K' : Cache} {m : Node} (h : Stored u cfg σ K m) (hl : Le K K') : Stored u cfg σ K' m :=
  fun hv hs => hl.ne_none (h hv hs)

/-- One step of `gatherD`'s fold. -/
def gatherStep (u : Universe) (immune : List Int) (cfg : Config) (d : Dyn) (rd : Reader) (x : Item)
    (acc : List Mod) (s : Spec) : Except Val (List Mod) :=
  match rd s.a s.m.srcAttr with
  | .absent => .ok acc
  | .ok v => (match resistD cfg rd s.e x with
    | .ok r => .ok (acc ++ [{ op := s.m.op, value := v, resist := r, agg := s.m.agg, aggKey := s.m.aggKey,
                              immune := immuneOf u d immune s.a }])
    | w => .error w)
  | w => .error w

theorem gatherD_eq_foldlM (rd : Reader) (x : Item) (tx : ItemType) (attr : Int) :
    gatherD u cfg d immune rd x tx attr = (specsOn u cfg d x tx attr).foldlM (gatherStep u immune cfg d rd x) [] := rfl

/-- The modification a spec contributes for source value `v` and resistance factor `rr`. -/
def modOf (u : Universe) (immune : List Int) (d : Dyn) (sp : Spec) (v rr : Rat) : Mod :=
  { op := sp.m.op, value := v, resist := rr, agg := sp.m.agg, aggKey := sp.m.aggKey,
    immune := immuneOf u d immune sp.a }

/-- What the fold of `readNode` over the affector specs `l` delivers from cache `Kc` and list `l0`: the same
list of modifications as `gatherD`'s fold under the reader of the from-scratch values; the threaded cache
stays coherent (and closed), only grows, and what was read is stored. -/
def FoldGood (u : Universe) (immune : List Int) (cfg : Config) (d : Dyn) (σ : Node → Option Rat) (P : Prop)
    (rd : Cache → Item → Int → Cache × Val) (y : Item) (Kc : Cache) (l0 : List Mod) (l : List Spec) : Prop :=
  ∃ mods, (l.foldl (gstep u immune rd cfg d y) (Kc, .ok l0)).2 = .ok mods ∧
    l.foldlM (gatherStep u immune cfg d (readerOf u σ) y) l0 = .ok mods ∧
    InvR u cfg d σ P (l.foldl (gstep u immune rd cfg d y) (Kc, .ok l0)).1 ∧
    Le Kc (l.foldl (gstep u immune rd cfg d y) (Kc, .ok l0)).1 ∧
    ∀ sp ∈ l, Stored u cfg σ (l.foldl (gstep u immune rd cfg d y) (Kc, .ok l0)).1 (sp.a.id, sp.m.srcAttr) ∧
      (P → ∀ c r, resistRead cfg sp.e y = some (c, r) →
        Stored u cfg σ (l.foldl (gstep u immune rd cfg d y) (Kc, .ok l0)).1 (c.id, r))

theorem fold_good (C : ReadCtx u immune limited pen cfg d σ P) (rd : Cache → Item → Int → Cache × Val) {y : Item}
    {a : Int} {am : AttrMeta} {tx : ItemType} (hy : y ∈ cfg.items) (ha : attrMeta? u a = some am)
    (hs : (y.kind == .skill && am.id == 280) = false) (ht : typeOf? u d y = some tx)
    (hrd : ∀ Kc x b, InvR u cfg d σ P Kc → x ∈ cfg.items → (x.id, b) ∈ deps u cfg d (y.id, a) →
      GoodRead u cfg d σ P Kc x b (rd Kc x b)) :
    ∀ (l : List Spec), (∀ sp ∈ l, sp ∈ specsOn u cfg d y tx am.id) → ∀ (Kc : Cache) (l0 : List Mod),
      InvR u cfg d σ P Kc → FoldGood u immune cfg d σ P rd y Kc l0 l := by
  have hyid : item? cfg (y.id, a).1 = some y := item?_of_mem C.uniq hy
  intro l
  induction l with
  | nil => intro _ Kc l0 hK; exact ⟨l0, rfl, rfl, hK, Le.refl _, fun _ h => by cases h⟩
  | cons sp l ih =>
    intro hl Kc l0 hK
    have hsp := hl sp List.mem_cons_self
    have hl' : ∀ sp' ∈ l, sp' ∈ specsOn u cfg d y tx am.id := fun sp' h => hl sp' (List.mem_cons_of_mem _ h)
    have hdep1 : (sp.a.id, sp.m.srcAttr) ∈ deps u cfg d (y.id, a) :=
      (mem_deps_iff hyid ha hs ht).2 (Or.inl ⟨sp, hsp, Or.inl rfl⟩)
    obtain ⟨h1v, h1i, h1l, h1s⟩ := hrd Kc sp.a sp.m.srcAttr hK (specsOn_mem hsp).1 hdep1
    -- the tail, from any state reached by the head
    have tail : ∀ (K1 : Cache) (l1 : List Mod), InvR u cfg d σ P K1 → Le Kc K1 →
        Stored u cfg σ K1 (sp.a.id, sp.m.srcAttr) →
        (P → ∀ c r, resistRead cfg sp.e y = some (c, r) → Stored u cfg σ K1 (c.id, r)) →
        gstep u immune rd cfg d y (Kc, .ok l0) sp = (K1, .ok l1) →
        gatherStep u immune cfg d (readerOf u σ) y l0 sp = .ok l1 →
        FoldGood u immune cfg d σ P rd y Kc l0 (sp :: l) := by
      intro K1 l1 hK1 hle hst1 hst2 hg1 hg2
      obtain ⟨mods, e1, e2, e3, e4, e5⟩ := ih hl' K1 l1 hK1
      refine ⟨mods, ?_, ?_, ?_, ?_, ?_⟩
      · rw [List.foldl_cons, hg1]; exact e1
      · rw [List.foldlM_cons, hg2]; exact e2
      · rw [List.foldl_cons, hg1]; exact e3
      · rw [List.foldl_cons, hg1]; exact hle.trans e4
      · intro sp' hsp'
        rw [List.foldl_cons, hg1]
        rcases List.mem_cons.1 hsp' with rfl | hsp'
        · exact ⟨hst1.mono e4, fun hp c r hr => (hst2 hp c r hr).mono e4⟩
        · exact e5 sp' hsp'
    rcases readerOf_ok_or_absent (u := u) σ sp.a sp.m.srcAttr with hab | ⟨v, hv⟩
    · -- source absent: the resistance attribute is not read
      refine tail _ l0 h1i h1l h1s (fun hp c r hr hval hne => absurd (C.rs hp y hy tx ht am.id sp hsp c r hr hab) hne)
        ?_ ?_
      · unfold gstep; simp only [h1v, hab]
      · unfold gatherStep; simp only [hab]
    · cases hr : resistRead cfg sp.e y with
      | none =>
        refine tail _ (l0 ++ [modOf u immune d sp v 1]) h1i h1l h1s (fun _ c r hr' => by rw [hr] at hr'; cases hr')
          ?_ ?_
        · unfold gstep modOf; simp only [h1v, hv, hr]
        · unfold gatherStep resistD modOf; simp only [hv, hr]
      | some p =>
        obtain ⟨c, r⟩ := p
        have hcm : c ∈ cfg.items :=
          (carrierOf_mem (cfg := cfg) (x := y) (resistRead_some hr).2.2).elim (fun e => e ▸ hy) id
        have hdep2 : (c.id, r) ∈ deps u cfg d (y.id, a) :=
          (mem_deps_iff hyid ha hs ht).2 (Or.inl ⟨sp, hsp, Or.inr ⟨c, r, hr, rfl⟩⟩)
        obtain ⟨h2v, h2i, h2l, h2s⟩ := hrd (rd Kc sp.a sp.m.srcAttr).1 c r h1i hcm hdep2
        have hst2 : P → ∀ c' r', resistRead cfg sp.e y = some (c', r') →
            Stored u cfg σ (rd (rd Kc sp.a sp.m.srcAttr).1 c r).1 (c'.id, r') := by
          intro _ c' r' hr'
          rw [hr] at hr'; cases hr'; exact h2s
        rcases readerOf_ok_or_absent (u := u) σ c r with hab2 | ⟨rr, hv2⟩
        · refine tail _ (l0 ++ [modOf u immune d sp v 1]) h2i (h1l.trans h2l) (h1s.mono h2l) hst2 ?_ ?_
          · unfold gstep modOf; simp only [h1v, hv, hr, h2v, hab2]
          · unfold gatherStep resistD modOf; simp only [hv, hr, hab2]
        · refine tail _ (l0 ++ [modOf u immune d sp v rr]) h2i (h1l.trans h2l) (h1s.mono h2l) hst2 ?_ ?_
          · unfold gstep modOf; simp only [h1v, hv, hr, h2v, hv2]
          · unfold gatherStep resistD modOf; simp only [hv, hr, hv2]

theorem valueOfD_calc {rd : Reader} {y : Item} {am : AttrMeta} {ty : ItemType} {b : Rat} {mods : List Mod}
    (hs : (y.kind == .skill && am.id == 280) = false) (ht : typeOf? u d y = some ty) (hb : baseOf ty am = some b)
    (hg : gatherD u cfg d immune rd y ty am.id = .ok mods) (hrd : ∀ a, rd y a = .absent ∨ ∃ v, rd y a = .ok v) :
    valueOfD u cfg d immune limited pen rd y am =
      match calculate pen am.stackable am.hig b mods
        (match am.maxAttr with | none => none | some mx => match rd y mx with | .ok c => some c | _ => none)
        (limited.contains am.id) with
      | .ok v => .ok v
      | .error _ => .divZero := by
  unfold valueOfD
  simp only [hs, ht, hb, hg, Bool.false_eq_true, if_false]
  cases hmx : am.maxAttr with
  | none => rfl
  | some mx =>
    rcases hrd mx with h | ⟨v, h⟩
    · simp only [h]; rfl
    · simp only [h]; rfl

theorem calculate_of_normAll {st hig : Bool} {b : Rat} {mods : List Mod} {cap : Option Rat} {lim : Bool} :
    (∀ e, normAll st mods = .error e → calculate pen st hig b mods cap lim = .error e) ∧
    (∀ ns, normAll st mods = .ok ns → ∃ v, calculate pen st hig b mods cap lim = .ok v) := by
  constructor
  · intro e h; unfold calculate; rw [h]; rfl
  · intro ns h; unfold calculate; rw [h]; exact ⟨_, rfl⟩

/-- Storing the from-scratch value of a node all of whose valued dependencies are stored. -/
theorem invR_update {c1 : Cache} {n : Node} {v : Rat} (hi : InvR u cfg d σ P c1) (hσ : σ n = some v)
    (hdeps : P → ∀ m ∈ depsV u cfg d n, σ m ≠ none → c1 m ≠ none) :
    InvR u cfg d σ P (fun k => if k = n then some v else c1 k) ∧ Le c1 (fun k => if k = n then some v else c1 k) := by
  refine ⟨⟨fun k w hk => ?_, fun hp k hk m hm hsm => ?_⟩, fun k w hk => ?_⟩
  · have hk' : (if k = n then some v else c1 k) = some w := hk
    by_cases hkn : k = n
    · rw [if_pos hkn] at hk'; rw [hkn, hσ]; exact hk'
    · rw [if_neg hkn] at hk'; exact hi.1 k w hk'
  · have hk' : (if k = n then some v else c1 k) ≠ none := hk
    show (if m = n then some v else c1 m) ≠ none
    by_cases hmn : m = n
    · rw [if_pos hmn]; exact Option.some_ne_none v
    · rw [if_neg hmn]
      by_cases hkn : k = n
      · exact hdeps hp m (hkn ▸ hm) hsm
      · rw [if_neg hkn] at hk'; exact hi.2 hp k hk' m hm hsm
  · show (if k = n then some v else c1 k) = some w
    by_cases hkn : k = n
    · have := hi.1 k w hk
      rw [hkn, hσ] at this
      rw [if_pos hkn]; exact this
    · rw [if_neg hkn]; exact hk

section body
variable (rd : Cache → Item → Int → Cache × Val) (K : Cache) (y : Item) (a : Int)

theorem readBody_override (hov : (y.kind == .skill && a == 280) = true) :
    readBody u immune limited pen rd cfg d K y a =
      (K, match y.level with | some l => .ok l | none => .absent) := by
  unfold readBody; rw [if_pos hov]

theorem readBody_nometa (hov : ¬ (y.kind == .skill && a == 280) = true) (ha : attrMeta? u a = none) :
    readBody u immune limited pen rd cfg d K y a = (K, .absent) := by
  unfold readBody; rw [if_neg hov]; simp only [ha]

theorem readBody_cached (hov : ¬ (y.kind == .skill && a == 280) = true) {am : AttrMeta}
    (ha : attrMeta? u a = some am) {v : Rat} (hk : K (y.id, a) = some v) :
    readBody u immune limited pen rd cfg d K y a = (K, .ok v) := by
  unfold readBody; rw [if_neg hov]; simp only [ha, hk]

theorem readBody_unloaded (hov : ¬ (y.kind == .skill && a == 280) = true) {am : AttrMeta}
    (ha : attrMeta? u a = some am) (hk : K (y.id, a) = none) (ht : typeOf? u d y = none) :
    readBody u immune limited pen rd cfg d K y a = (K, .absent) := by
  unfold readBody; rw [if_neg hov]; simp only [ha, hk, ht]

theorem readBody_nobase (hov : ¬ (y.kind == .skill && a == 280) = true) {am : AttrMeta}
    (ha : attrMeta? u a = some am) (hk : K (y.id, a) = none) {ty : ItemType} (ht : typeOf? u d y = some ty)
    (hb : baseOf ty am = none) :
    readBody u immune limited pen rd cfg d K y a = (K, .absent) := by
  unfold readBody; rw [if_neg hov]; simp only [ha, hk, ht, hb]

theorem readBody_calc (hov : ¬ (y.kind == .skill && a == 280) = true) {am : AttrMeta}
    (ha : attrMeta? u a = some am) (hk : K (y.id, a) = none) {ty : ItemType} (ht : typeOf? u d y = some ty)
    {b : Rat} (hb : baseOf ty am = some b) :
    readBody u immune limited pen rd cfg d K y a = readCalc u immune limited pen rd cfg d K y a am ty b := by
  unfold readBody; rw [if_neg hov]; simp only [ha, hk, ht, hb]

end body

/-- The body of `readNode` with good recursive reads is a good read. -/
theorem readBody_good (C : ReadCtx u immune limited pen cfg d σ P) (rd : Cache → Item → Int → Cache × Val)
    {K : Cache} {y : Item} {a : Int} (hy : y ∈ cfg.items) (hK : InvR u cfg d σ P K)
    (hrd : ∀ Kc x b, InvR u cfg d σ P Kc → x ∈ cfg.items → (x.id, b) ∈ deps u cfg d (y.id, a) →
      GoodRead u cfg d σ P Kc x b (rd Kc x b)) :
    GoodRead u cfg d σ P K y a (readBody u immune limited pen rd cfg d K y a) := by
  have hyid : item? cfg y.id = some y := item?_of_mem C.uniq hy
  by_cases hov : (y.kind == .skill && a == 280) = true
  · rw [readBody_override _ _ _ _ hov]
    refine ⟨by unfold readerOf; rw [if_pos hov]; rfl, hK, Le.refl K, fun hv => ?_⟩
    simp [valued, hyid, hov] at hv
  cases ha : attrMeta? u a with
  | none =>
    rw [readBody_nometa _ _ _ _ hov ha]
    refine ⟨by unfold readerOf; rw [if_neg hov, ha]; rfl, hK, Le.refl K, fun hv => ?_⟩
    simp [valued, ha] at hv
  | some am =>
    have hid : am.id = a := by simpa using List.find?_some ha
    have hnn : ¬ ((attrMeta? u a).isNone = true) := by rw [ha]; simp
    cases hk : K (y.id, a) with
    | some v =>
      rw [readBody_cached _ _ _ _ hov ha hk]
      refine ⟨?_, hK, Le.refl K, fun _ _ => by show K (y.id, a) ≠ none; rw [hk]; exact Option.some_ne_none v⟩
      unfold readerOf; rw [if_neg hov, if_neg hnn, hK.1 _ v hk]
    | none =>
      have hs : (y.kind == .skill && am.id == 280) = false := by rw [hid]; simpa using hov
      have hσn : σ (y.id, a) = valToOption (valueOfD u cfg d immune limited pen (readerOf u σ) y am) := by
        rw [C.fix]; unfold evalD; simp only [hyid, ha]
      have hVne := C.ef y hy am (List.mem_of_find?_eq_some ha)
      -- whatever the branch: the value is `valueOfD` under the reader of the from-scratch values
      have key : ∀ r : Cache × Val, r.2 = valueOfD u cfg d immune limited pen (readerOf u σ) y am →
          InvR u cfg d σ P r.1 → Le K r.1 → (∀ v, r.2 = .ok v → r.1 (y.id, a) ≠ none) →
          GoodRead u cfg d σ P K y a r := by
        intro r h2 hi hle hst
        rcases valueOfD_reader (u := u) (cfg := cfg) (readerOf_ok_or_absent σ) d immune limited pen y am with
          h0 | ⟨⟨v, hv⟩, _⟩ | ⟨hab, _⟩
        · exact absurd h0 hVne
        · rw [hv] at hσn h2
          refine ⟨?_, hi, hle, fun _ _ => hst v h2⟩
          rw [h2]; unfold readerOf; rw [if_neg hov, if_neg hnn, hσn]; rfl
        · rw [hab] at hσn h2
          refine ⟨?_, hi, hle, fun _ hne => absurd hσn hne⟩
          rw [h2]; unfold readerOf; rw [if_neg hov, if_neg hnn, hσn]; rfl
      cases ht : typeOf? u d y with
      | none =>
        rw [readBody_unloaded _ _ _ _ hov ha hk ht]
        refine key _ ?_ hK (Le.refl K) (fun v h => by cases h)
        unfold valueOfD; simp only [hs, ht, Bool.false_eq_true, if_false]
      | some ty =>
        cases hb : baseOf ty am with
        | none =>
          rw [readBody_nobase _ _ _ _ hov ha hk ht hb]
          refine key _ ?_ hK (Le.refl K) (fun v h => by cases h)
          unfold valueOfD; simp only [hs, ht, hb, Bool.false_eq_true, if_false]
        | some b =>
          have hrd' : ∀ Kc x b, InvR u cfg d σ P Kc → x ∈ cfg.items → (x.id, b) ∈ deps u cfg d (y.id, a) →
              GoodRead u cfg d σ P Kc x b (rd Kc x b) := hrd
          obtain ⟨mods, e1, e2, e3, e4, e5⟩ := fold_good C rd hy ha hs ht hrd' _ (fun _ h => h) K [] hK
          have hV := valueOfD_calc (limited := limited) (pen := pen) hs ht hb
            ((gatherD_eq_foldlM (readerOf u σ) y ty am.id).trans e2) (fun a => readerOf_ok_or_absent σ y a)
          have hdeps := @mem_deps_iff u cfg d (y.id, a)
          rw [readBody_calc _ _ _ _ hov ha hk ht hb]
          unfold readCalc
          simp only [e1]
          cases hn : normAll am.stackable mods with
          | error e =>
            rw [(calculate_of_normAll (pen := pen)).1 e hn] at hV
            exact absurd hV hVne
          | ok ns =>
            -- the rest, from the cache `c1` after the cap attribute was read (or not)
            have fin : ∀ (c1 : Cache) (capv : Option Rat), InvR u cfg d σ P c1 →
                Le (List.foldl (gstep u immune rd cfg d y) (K, Except.ok []) (specsOn u cfg d y ty am.id)).1 c1 →
                (∀ mx, am.maxAttr = some mx → Stored u cfg σ c1 (y.id, mx)) →
                capv = (match am.maxAttr with
                  | none => none
                  | some mx => match readerOf u σ y mx with | .ok c => some c | _ => none) →
                GoodRead u cfg d σ P K y a
                  (match calculate pen am.stackable am.hig b mods capv (limited.contains am.id) with
                    | .ok v => ((fun k => if k = (y.id, a) then some v else c1 k), .ok v)
                    | .error _ => (c1, .divZero)) := by
              intro c1 capv hi hle hcapst hcap
              rw [← hcap] at hV
              obtain ⟨v, hcv⟩ := (calculate_of_normAll (pen := pen) (hig := am.hig) (b := b) (cap := capv)
                (lim := limited.contains am.id)).2 ns hn
              rw [hcv] at hV ⊢
              rw [hV] at hσn
              obtain ⟨hiu, hleu⟩ := invR_update hi hσn (fun hp m hm hsm => by
                obtain ⟨hmd, hmv⟩ := mem_depsV.1 hm
                rcases (hdeps (n' := m) hyid ha hs ht).1 hmd with ⟨s, hsp, rfl | ⟨c, r, hr, rfl⟩⟩ | ⟨mx, hmx, rfl⟩
                · exact hle.ne_none ((e5 s hsp).1 hmv hsm)
                · exact hle.ne_none ((e5 s hsp).2 hp c r hr hmv hsm)
                · exact hcapst mx hmx hmv hsm)
              refine key _ hV.symm hiu ((e4.trans hle).trans hleu) (fun _ _ => ?_)
              show (if (y.id, a) = (y.id, a) then some v else c1 (y.id, a)) ≠ none
              rw [if_pos rfl]; exact Option.some_ne_none v
            simp only
            cases hmx : am.maxAttr with
            | none =>
              have := fin _ none e3 (Le.refl _) (fun mx h => by rw [hmx] at h; cases h) (by rw [hmx])
              simpa only using this
            | some mx =>
              obtain ⟨h3v, h3i, h3l, h3s⟩ := hrd _ y mx e3 hy
                ((hdeps (n' := (y.id, mx)) hyid ha hs ht).2 (Or.inr ⟨mx, hmx, rfl⟩))
              have hst : ∀ mx', am.maxAttr = some mx' → Stored u cfg σ
                  (rd (List.foldl (gstep u immune rd cfg d y) (K, Except.ok []) (specsOn u cfg d y ty am.id)).1 y mx).1
                  (y.id, mx') := by
                intro mx' h; rw [hmx] at h; cases h; exact h3s
              rcases readerOf_ok_or_absent (u := u) σ y mx with hab | ⟨cv, hcv⟩
              · have := fin _ none h3i h3l hst (by rw [hmx]; simp only [hab])
                simpa only [h3v, hab] using this
              · have := fin _ (some cv) h3i h3l hst (by rw [hmx]; simp only [hcv])
                simpa only [h3v, hcv] using this

/-- **`readNode` with enough fuel is a good read**, by induction on the fuel: the rank of the attribute
decreases along `deps` (`rankWF`), attributes without metadata are answered without recursion. -/
theorem readNode_good (C : ReadCtx u immune limited pen cfg d σ P) : ∀ (f : Nat) (K : Cache) (y : Item) (a : Int),
    y ∈ cfg.items → InvR u cfg d σ P K → FuelOK u f a →
    GoodRead u cfg d σ P K y a (readNode u immune limited pen f cfg d K y a) := by
  intro f
  induction f with
  | zero => intro K y a _ _ hf; exact absurd hf.1 (Nat.lt_irrefl 0)
  | succ f ih =>
    intro K y a hy hK hf
    rw [readNode_succ]
    refine readBody_good C _ hy hK (fun Kc x b hKc hx hdep => ih Kc x b hx hKc ?_)
    obtain ⟨am, ham, _⟩ := deps_readable hdep
    have h2 := hf.2 (by rw [show attrMeta? u a = some am from ham]; rfl)
    refine ⟨by omega, fun hb => ?_⟩
    have := deps_rank_lt C.wf hdep hb
    unfold rankOf at this
    simp only at this
    omega

theorem fuelOK_top (a : Int) : FuelOK u (fuelOf u + 1) a := by
  refine ⟨Nat.succ_pos _, fun _ => ?_⟩
  have := List.idxOf_le_length (a := a) (l := u.attrs.map (·.id))
  rw [List.length_map] at this
  unfold fuelOf; omega

/-! ### The read against the graph of the state -/

open Eos.DepCache Eos.Machine Eos.Micro.L

theorem worldGraph_deps (hwf : rankWF u = true) (hU : UniqueIds cfg) (n : Node) :
    (worldGraph u immune limited pen hwf (cfg, d)).deps n = depsV u cfg d n := by
  unfold worldGraph; rw [dif_pos hU]; rfl

theorem readCtx_world (hwf : rankWF u = true) (hU : UniqueIds cfg)
    (hef : ErrorFree u immune limited pen (worldGraph u immune limited pen hwf) cfg d) (P : Prop)
    (hrs : P → ResistSrcOK u cfg d (spec (worldGraph u immune limited pen hwf (cfg, d)))) :
    ReadCtx u immune limited pen cfg d (spec (worldGraph u immune limited pen hwf (cfg, d))) P where
  uniq := hU
  wf := hwf
  fix := fun n => by rw [spec_unfold, (worldGraph_ties hwf).heval]
  ef := hef
  rs := hrs

theorem invR_of_inv (hwf : rankWF u = true) (hU : UniqueIds cfg) {K : Cache}
    (hg : Inv (worldGraph u immune limited pen hwf (cfg, d)) K) (P : Prop) :
    InvR u cfg d (spec (worldGraph u immune limited pen hwf (cfg, d))) P K :=
  ⟨hg.coh, fun _ n hn m hm hs => hg.closed n hn m (by rw [worldGraph_deps hwf hU]; exact hm) hs⟩

/-- **Value of the executable read.**  Cache coherent and dependency-closed for the graph of the state
(`Machine.Good`), rank-well-formed universe, unique item ids, no calculation divides by zero: a public read of
`(y, a)` with the model's fuel returns what the reader of the from-scratch values `spec (worldGraph … (cfg, d))`
answers — the skill level for the override node, `absent` without metadata, otherwise `.ok v` / `.absent`
according to `spec … (y.id, a) = some v` / `none`. -/
theorem readNode_value (hwf : rankWF u = true) (hU : UniqueIds cfg)
    (hef : ErrorFree u immune limited pen (worldGraph u immune limited pen hwf) cfg d) {K : Cache}
    (hg : Inv (worldGraph u immune limited pen hwf (cfg, d)) K) {y : Item} (hy : y ∈ cfg.items) (a : Int) :
    (readNode u immune limited pen (fuelOf u + 1) cfg d K y a).2 =
      readerOf u (spec (worldGraph u immune limited pen hwf (cfg, d))) y a :=
  (readNode_good (readCtx_world hwf hU hef False (fun h => h.elim)) _ K y a hy (invR_of_inv hwf hU hg False)
    (fuelOK_top a)).1

/-- The same for a node the reader takes from the valuation (attribute with metadata, not a skill's level). -/
theorem readNode_value_node (hwf : rankWF u = true) (hU : UniqueIds cfg)
    (hef : ErrorFree u immune limited pen (worldGraph u immune limited pen hwf) cfg d) {K : Cache}
    (hg : Inv (worldGraph u immune limited pen hwf (cfg, d)) K) {y : Item} (hy : y ∈ cfg.items) {a : Int}
    (hv : valued u cfg (y.id, a) = true) :
    (readNode u immune limited pen (fuelOf u + 1) cfg d K y a).2 =
      match spec (worldGraph u immune limited pen hwf (cfg, d)) (y.id, a) with
      | some v => .ok v
      | none => .absent := by
  rw [readNode_value hwf hU hef hg hy a]
  simp only [valued, item?_of_mem hU hy, Bool.and_eq_true, Bool.not_eq_true'] at hv
  unfold readerOf
  rw [if_neg (by rw [hv.2]; simp), if_neg (by rw [Option.isSome_iff_ne_none] at hv; simpa using hv.1)]
  rfl

/-- The cache after the read is coherent, and it only grows. -/
theorem readNode_coh (hwf : rankWF u = true) (hU : UniqueIds cfg)
    (hef : ErrorFree u immune limited pen (worldGraph u immune limited pen hwf) cfg d) {K : Cache}
    (hg : Inv (worldGraph u immune limited pen hwf (cfg, d)) K) {y : Item} (hy : y ∈ cfg.items) (a : Int) :
    Coh (spec (worldGraph u immune limited pen hwf (cfg, d)))
      (readNode u immune limited pen (fuelOf u + 1) cfg d K y a).1 ∧
    Le K (readNode u immune limited pen (fuelOf u + 1) cfg d K y a).1 :=
  have h := readNode_good (readCtx_world hwf hU hef False (fun h => h.elim)) _ K y a hy
    (invR_of_inv hwf hU hg False) (fuelOK_top a)
  ⟨h.2.1.1, h.2.2.1⟩

/- Full statement (NOT provable; see `ResistSrcOK`): with the hypotheses of `readNode_value` the cache after
the read is `fun n => if S n then spec G n else K n` for a set `S` with `Machine.Legal G ⟨(cfg, d), K⟩ (.read S)`.
Counter-example: a projected, resisted modifier whose source attribute is absent on the projector while the
target's resistance attribute has a value: the read caches the modified attribute of the target without
reading (hence caching) the resistance attribute, which `deps` lists. -/
/-- **A public read of the driver is a legal read step of the abstract machine** — under the additional
hypothesis `ResistSrcOK` (whenever the source attribute of a resisted spec reads as absent, the resistance
attribute it would be scaled by has no value either). -/
theorem readNode_legal_partial (hwf : rankWF u = true) (hU : UniqueIds cfg)
    (hef : ErrorFree u immune limited pen (worldGraph u immune limited pen hwf) cfg d)
    (hrs : ResistSrcOK u cfg d (spec (worldGraph u immune limited pen hwf (cfg, d)))) {K : Cache}
    (hg : Inv (worldGraph u immune limited pen hwf (cfg, d)) K) {y : Item} (hy : y ∈ cfg.items) (a : Int) :
    ∃ S : Node → Bool,
      Legal (worldGraph u immune limited pen hwf) ⟨(cfg, d), K⟩ (.read S) ∧
      (readNode u immune limited pen (fuelOf u + 1) cfg d K y a).1 =
        fun n => if S n then spec (worldGraph u immune limited pen hwf (cfg, d)) n else K n := by
  obtain ⟨_, ⟨hcoh, hcl⟩, hle, _⟩ := readNode_good (readCtx_world hwf hU hef True (fun _ => hrs)) _ K y a hy
    (invR_of_inv hwf hU hg True) (fuelOK_top a)
  generalize (readNode u immune limited pen (fuelOf u + 1) cfg d K y a).1 = K' at hcoh hcl hle
  refine ⟨fun n => (K' n).isSome && (K n).isNone, fun n hn m hm hs => ?_, funext fun n => ?_⟩
  · simp only [Bool.and_eq_true, Option.isSome_iff_ne_none, Option.isNone_iff_eq_none] at hn ⊢
    have := hcl trivial n hn.1 m (by rw [← worldGraph_deps (immune := immune) (limited := limited) (pen := pen) hwf hU]; exact hm) hs
    by_cases hk : K m = none
    · exact Or.inl ⟨this, hk⟩
    · exact Or.inr hk
  · show K' n = if ((K' n).isSome && (K n).isNone) = true then _ else K n
    cases hk' : K' n with
    | none =>
      cases hk : K n with
      | none => simp
      | some v => rw [hle n v hk] at hk'; cases hk'
    | some v =>
      cases hk : K n with
      | none => simp [hcoh n v hk']
      | some w => rw [hle n w hk] at hk'; simp [hk']

/-! ### Reads on the table representation -/

theorem mem_tblOf {K : Cache} {p : Node × Rat} :
    p ∈ tblOf u cfg K ↔ (∃ x ∈ cfg.items, ∃ am ∈ u.attrs, p.1 = (x.id, am.id)) ∧ K p.1 = some p.2 := by
  simp only [tblOf, List.mem_flatMap, List.mem_filterMap, Option.map_eq_some_iff]
  constructor
  · rintro ⟨x, hx, am, ham, v, hv, rfl⟩; exact ⟨⟨x, hx, am, ham, rfl⟩, hv⟩
  · rintro ⟨⟨x, hx, am, ham, h1⟩, h2⟩
    exact ⟨x, hx, am, ham, p.2, by rw [← h1]; exact h2, by rw [← h1]⟩

/-- Re-packing a cache whose entries belong to configured items and attributes with metadata loses nothing. -/
theorem tblFun_tblOf {K : Cache}
    (hsupp : ∀ n, K n ≠ none → ∃ x ∈ cfg.items, ∃ am ∈ u.attrs, n = (x.id, am.id)) :
    tblFun (tblOf u cfg K) = K := by
  funext n
  unfold tblFun
  cases hf : (tblOf u cfg K).find? (·.1 == n) with
  | none =>
    cases hk : K n with
    | none => rfl
    | some v =>
      have := List.find?_eq_none.1 hf (n, v) (mem_tblOf.2 ⟨hsupp n (by rw [hk]; exact Option.some_ne_none v), hk⟩)
      simp at this
  | some p =>
    have hp := (mem_tblOf.1 (List.mem_of_find?_eq_some hf)).2
    have hk : p.1 = n := by simpa using List.find?_some hf
    rw [hk] at hp
    exact hp.symm

/-- A coherent cache has entries only for configured items and attributes with metadata. -/
theorem supp_of_coh {K : Cache} (hfix : ∀ n, σ n = evalD u cfg d immune limited pen n σ) (hc : Coh σ K) :
    ∀ n, K n ≠ none → ∃ x ∈ cfg.items, ∃ am ∈ u.attrs, n = (x.id, am.id) := by
  intro n hn
  cases hk : K n with
  | none => exact absurd hk hn
  | some v =>
    have := hc n v hk
    rw [hfix] at this
    unfold evalD at this
    cases hx : item? cfg n.1 with
    | none => rw [hx] at this; cases this
    | some x =>
      cases ha : attrMeta? u n.2 with
      | none => rw [hx, ha] at this; cases this
      | some am => exact ⟨x, item?_mem hx, am, attrMeta?_mem ha, node_eq hx ha⟩

/-- **The driver's read is the model's read**: `readStepT` (table in, table out) and `readStep` return the
same value and the same state. -/
theorem readStepT_toM (hwf : rankWF u = true) {s : TState} (hU : UniqueIds s.cfg)
    (hef : ErrorFree u immune limited pen (worldGraph u immune limited pen hwf) s.cfg s.dyn)
    (hg : Good (worldGraph u immune limited pen hwf) (toState s.toM)) (i : Nat) (a : Int) :
    (readStepT u immune limited pen s i a).1.toM = (readStep u immune limited pen s.toM i a).1 ∧
    (readStepT u immune limited pen s i a).2 = (readStep u immune limited pen s.toM i a).2 := by
  unfold readStepT readStep
  simp only [TState.toM]
  cases hi : item? s.cfg i with
  | none => exact ⟨rfl, rfl⟩
  | some y =>
    refine ⟨?_, rfl⟩
    show MState.mk _ _ _ = MState.mk _ _ _
    congr 1
    exact tblFun_tblOf (supp_of_coh (readCtx_world hwf hU hef False (fun h => h.elim)).fix
      (readNode_coh hwf hU hef hg (item?_mem hi) a).1)

/-! ### Why `ResistSrcOK` is needed

A module (item 2) projects effect 1000 — resisted by attribute 9, one modifier `37 ← 20` — onto a ship
(item 1); the module's type has no attribute 20, the ship's type has attribute 9.  Reading `(1, 37)` skips the
modifier (source absent) without reading the resistance attribute: `(1, 37)` is cached, its dependency `(1, 9)`
has a from-scratch value and stays uncached. -/

def gapU : Universe :=
  { attrs := [⟨9, none, none, true, true⟩, ⟨20, none, none, true, true⟩, ⟨37, none, none, true, true⟩],
    effects := [⟨1000, 2, none, some 9, false, [⟨1, 4, none, 37, 6, 1, none, 20⟩]⟩],
    types := [⟨1, none, some 6, none, [(37, 100), (9, 1/2)], [], []⟩, ⟨2, none, some 7, none, [], [1000], []⟩] }
def gapShip : Item := ⟨1, .ship, 1, 0, 1, none, none, none, []⟩
def gapCfg : Config :=
  { hasSource := true, fits := [⟨0, some 1, none, none⟩],
    items := [gapShip, ⟨2, .moduleMid, 2, 0, 3, none, some 1, none, []⟩] }
def gapD : Dyn :=
  { loaded := fun i => i == 1 || i == 2, on := fun i e => i == 2 && e == 1000,
    tgts := fun i e => if i == 2 && e == 1000 then [1] else [] }

example : (readNode gapU specImmune specLimited (fun _ => 1) (fuelOf gapU + 1) gapCfg gapD (fun _ => none) gapShip 37).2
      = .ok 100 ∧
    (readNode gapU specImmune specLimited (fun _ => 1) (fuelOf gapU + 1) gapCfg gapD (fun _ => none) gapShip 37).1 (1, 37)
      = some 100 ∧
    (readNode gapU specImmune specLimited (fun _ => 1) (fuelOf gapU + 1) gapCfg gapD (fun _ => none) gapShip 37).1 (1, 9)
      = none ∧
    (1, 9) ∈ depsV gapU gapCfg gapD (1, 37) ∧
    spec (worldGraph gapU specImmune specLimited (fun _ => 1) (by decide) (gapCfg, gapD)) (1, 9) = some (1/2) := by
  refine ⟨by decide +kernel, by decide +kernel, by decide +kernel, by decide +kernel, by decide +kernel⟩

/-! ### Non-vacuity: the settled two-item world of `Lemmas/MicroSettle.lean`, read through the table twin -/

example : (readStepT settleU specImmune specLimited (fun _ => 1)
      ⟨settleCfg, derivedDyn settleU settleCfg, []⟩ 1 37).2 = .ok 225 ∧
    (readStepT settleU specImmune specLimited (fun _ => 1)
      ⟨settleCfg, derivedDyn settleU settleCfg, []⟩ 1 37).1.tbl = [((1, 37), 225), ((2, 20), 3/2)] := by
  refine ⟨by decide +kernel, by decide +kernel⟩

end read

end Eos.Micro
