import EosModel.Rah
import Mathlib.Algebra.Order.Field.Rat
import Mathlib.Algebra.BigOperators.Group.List.Basic
import Mathlib.Tactic.Linarith
import Mathlib.Tactic.Ring
import Mathlib.Tactic.FieldSimp
/-! Helper lemmas for property C12 (reactive armor hardener). -/
namespace Eos.Rah

theorem rmin_le_left (a b : Rat) : rmin a b ≤ a := by unfold rmin; split <;> linarith
theorem rmin_le_right (a b : Rat) : rmin a b ≤ b := by unfold rmin; split <;> linarith
theorem le_rmin {a b c : Rat} (h1 : c ≤ a) (h2 : c ≤ b) : c ≤ rmin a b := by unfold rmin; split <;> assumption
theorem rmin_mem (a b : Rat) : rmin a b = a ∨ rmin a b = b := by unfold rmin; split <;> simp

@[simp] theorem Vec.get_ofFn (f : Dmg → Rat) (t : Dmg) : (Vec.ofFn f).get t = f t := by cases t <;> rfl
theorem Vec.sum_ofFn (f : Dmg → Rat) : (Vec.ofFn f).sum = f .em + f .therm + f .kin + f .expl := rfl
theorem Vec.sum_eq (v : Vec) : v.sum = v.get .em + v.get .therm + v.get .kin + v.get .expl := rfl
theorem Vec.ext_get {v w : Vec} (h : ∀ t, v.get t = w.get t) : v = w := by
  cases v; cases w
  have h1 := h .em; have h2 := h .therm; have h3 := h .kin; have h4 := h .expl
  simp only [Vec.get] at h1 h2 h3 h4
  simp [h1, h2, h3, h4]

theorem sum_order (f : Dmg → Rat) : (order.map f).sum = f .em + f .therm + f .kin + f .expl := by
  simp [order]; ring

theorem order_nodup : order.Nodup := by decide
theorem mem_order (t : Dmg) : t ∈ order := by cases t <;> decide

theorem sorted_perm (d : Vec) : (sorted d).Perm order := List.mergeSort_perm _ _
theorem sorted_nodup (d : Vec) : (sorted d).Nodup := (sorted_perm d).nodup_iff.mpr order_nodup
theorem sorted_length (d : Vec) : (sorted d).length = 4 := (sorted_perm d).length_eq
theorem mem_sorted (d : Vec) (t : Dmg) : t ∈ sorted d := (sorted_perm d).mem_iff.mpr (mem_order t)

theorem sum_sorted (d : Vec) (f : Dmg → Rat) : ((sorted d).map f).sum = f .em + f .therm + f .kin + f .expl := by
  rw [← sum_order f]; exact ((sorted_perm d).map f).sum_eq

theorem zeroCount_le (d : Vec) : zeroCount d ≤ 4 := by
  unfold zeroCount; exact le_trans (List.length_filter_le _ _) (by simp [order])

theorem donorsN_le (d : Vec) : donorsN d ≤ 4 := by
  unfold donorsN; exact max_le (by norm_num) (zeroCount_le d)

theorem two_le_donorsN (d : Vec) : 2 ≤ donorsN d := le_max_left _ _

theorem zeroCount_lt_of_ne {d : Vec} (h : ∃ t, d.get t ≠ 0) : zeroCount d < 4 := by
  obtain ⟨t, ht⟩ := h
  unfold zeroCount
  have : (order.filter fun t => decide (d.get t = 0)).length < order.length := by
    apply List.length_filter_lt_length_iff_exists.mpr
    exact ⟨t, mem_order t, by simpa using ht⟩
  simpa [order] using this

theorem donorsN_lt_of_ne {d : Vec} (h : ∃ t, d.get t ≠ 0) : donorsN d < 4 := by
  unfold donorsN; exact max_lt (by norm_num) (zeroCount_lt_of_ne h)

theorem donorList_length (d : Vec) : (donorList d).length = donorsN d := by
  unfold donorList; rw [List.length_take, sorted_length]; exact min_eq_left (donorsN_le d)

theorem sorted_split (d : Vec) : sorted d = donorList d ++ (sorted d).drop (donorsN d) :=
  (List.take_append_drop _ _).symm

theorem not_donor_of_mem_drop {d : Vec} {t : Dmg} (h : t ∈ (sorted d).drop (donorsN d)) : t ∉ donorList d := by
  have hn := sorted_nodup d
  rw [sorted_split d] at hn
  exact fun h' => (List.nodup_append.mp hn).2.2 t h' t h rfl

theorem mem_drop_of_not_donor {d : Vec} {t : Dmg} (h : t ∉ donorList d) : t ∈ (sorted d).drop (donorsN d) := by
  have := mem_sorted d t
  rw [sorted_split d, List.mem_append] at this
  exact this.resolve_left h

theorem donation_nonneg {cur : Vec} {s : Rat} (hc : ∀ t, cur.get t ≤ 1) (hs : 0 ≤ s) (t : Dmg) :
    0 ≤ donation cur s t := le_rmin (by linarith [hc t]) hs

theorem list_sum_nonneg {l : List Rat} (h : ∀ x ∈ l, 0 ≤ x) : 0 ≤ l.sum := by
  induction l with
  | nil => simp
  | cons a l ih =>
    simp only [List.sum_cons]
    have := h a (by simp); have := ih (fun x hx => h x (by simp [hx])); linarith

theorem donated_nonneg {cur : Vec} {s : Rat} (hc : ∀ t, cur.get t ≤ 1) (hs : 0 ≤ s) (d : Vec) :
    0 ≤ donated cur d s := by
  unfold donated
  apply list_sum_nonneg
  intro x hx
  obtain ⟨t, _, rfl⟩ := List.mem_map.mp hx
  exact donation_nonneg hc hs t

theorem nextResos_get (cur d : Vec) (s : Rat) (t : Dmg) :
    (nextResos cur d s).get t =
      if t ∈ donorList d then cur.get t + donation cur s t
      else cur.get t - donated cur d s / ((4 - donorsN d : Nat) : Rat) := by
  unfold nextResos; simp

theorem sum_map_add (l : List Dmg) (f g : Dmg → Rat) :
    (l.map fun t => f t + g t).sum = (l.map f).sum + (l.map g).sum := by
  induction l with
  | nil => simp
  | cons a l ih => simp [ih]; ring

theorem sum_map_sub_const (l : List Dmg) (f : Dmg → Rat) (c : Rat) :
    (l.map fun t => f t - c).sum = (l.map f).sum - l.length * c := by
  induction l with
  | nil => simp
  | cons a l ih => simp [ih]; ring

/-- One shift conserves the resonance sum as soon as some type received damage. -/
theorem nextResos_sum {cur d : Vec} (s : Rat) (h : ∃ t, d.get t ≠ 0) : (nextResos cur d s).sum = cur.sum := by
  have hlt := donorsN_lt_of_ne h
  rw [Vec.sum_eq, Vec.sum_eq, ← sum_sorted d (nextResos cur d s).get, ← sum_sorted d cur.get]
  have hsplit := sorted_split d
  generalize hR : (sorted d).drop (donorsN d) = R at hsplit
  have hRlen : R.length = 4 - donorsN d := by rw [← hR, List.length_drop, sorted_length]
  have hdon : ((donorList d).map (nextResos cur d s).get) = (donorList d).map fun t => cur.get t + donation cur s t := by
    apply List.map_congr_left; intro t ht; rw [nextResos_get, if_pos ht]
  have hrec : (R.map (nextResos cur d s).get) =
      R.map fun t => cur.get t - donated cur d s / ((4 - donorsN d : Nat) : Rat) := by
    apply List.map_congr_left; intro t ht
    rw [nextResos_get, if_neg (not_donor_of_mem_drop (hR ▸ ht))]
  rw [hsplit, List.map_append, List.map_append, List.sum_append, List.sum_append, hdon, hrec, sum_map_add,
    sum_map_sub_const, hRlen]
  have hne : ((4 - donorsN d : Nat) : Rat) ≠ 0 := by
    have : 0 < 4 - donorsN d := by omega
    exact_mod_cast this.ne'
  have hd : ((donorList d).map (donation cur s)).sum = donated cur d s := rfl
  rw [hd]; field_simp; ring

theorem nextResos_le_one {cur : Vec} {s : Rat} (d : Vec) (hc : ∀ t, cur.get t ≤ 1) (hs : 0 ≤ s) (t : Dmg) :
    (nextResos cur d s).get t ≤ 1 := by
  rw [nextResos_get]
  split
  · have := rmin_le_left (1 - cur.get t) s; unfold donation; linarith
  · have h1 := donated_nonneg hc hs d
    have h2 : (0 : Rat) ≤ ((4 - donorsN d : Nat) : Rat) := by exact_mod_cast Nat.zero_le _
    have := div_nonneg h1 h2
    linarith [hc t]

theorem pos_of_sum_gt_three {v : Vec} (hs : 3 < v.sum) (hc : ∀ t, v.get t ≤ 1) (t : Dmg) : 0 < v.get t := by
  rw [Vec.sum_eq] at hs
  have h1 := hc .em; have h2 := hc .therm; have h3 := hc .kin; have h4 := hc .expl
  cases t <;> linarith

/-! ## Donor / recipient rule -/

theorem le_trans_bool (d : Vec) : ∀ a b c : Dmg, decide (d.get a ≤ d.get b) = true →
    decide (d.get b ≤ d.get c) = true → decide (d.get a ≤ d.get c) = true := by
  intro a b c h1 h2; simp only [decide_eq_true_eq] at *; exact le_trans h1 h2

theorem le_total_bool (d : Vec) : ∀ a b : Dmg, (decide (d.get a ≤ d.get b) || decide (d.get b ≤ d.get a)) = true := by
  intro a b; simp only [Bool.or_eq_true, decide_eq_true_eq]; exact le_total _ _

theorem sorted_pairwise (d : Vec) : (sorted d).Pairwise fun a b => d.get a ≤ d.get b := by
  have := List.pairwise_mergeSort (le_trans_bool d) (le_total_bool d) order
  exact this.imp (by intro a b h; simpa using h)

/-- Every donor received at most as much damage as every recipient. -/
theorem donor_le_recipient {d : Vec} {a b : Dmg} (ha : a ∈ donorList d) (hb : b ∉ donorList d) :
    d.get a ≤ d.get b := by
  have hp := sorted_pairwise d
  rw [sorted_split d, List.pairwise_append] at hp
  exact hp.2.2 a ha b (mem_drop_of_not_donor hb)

theorem pair_sublist_take {l : List Dmg} (hn : l.Nodup) {a b : Dmg} (n : Nat) (h : [a, b].Sublist l)
    (hb : b ∈ l.take n) : a ∈ l.take n := by
  rw [← List.take_append_drop n l] at h hn
  obtain ⟨l1, l2, h12, h1, h2⟩ := List.sublist_append_iff.mp h
  have hdis := (List.nodup_append.mp hn).2.2
  match l1, h12 with
  | [], h12 =>
    simp only [List.nil_append] at h12; subst h12
    exact absurd rfl (hdis b hb b (h2.subset (by simp)))
  | [x], h12 =>
    simp only [List.cons_append, List.nil_append, List.cons.injEq] at h12
    obtain ⟨rfl, rfl⟩ := h12
    exact absurd rfl (hdis b hb b (h2.subset (by simp)))
  | x :: y :: l1', h12 =>
    simp only [List.cons_append, List.cons.injEq] at h12
    obtain ⟨rfl, rfl, _⟩ := h12
    exact h1.subset (by simp)

/-- Ties are broken by the order of `res_attr_ids`: a type listed earlier with no more damage donates
    whenever the later one does. -/
theorem tie_earlier_donates {d : Vec} {a b : Dmg} (hord : [a, b].Sublist order) (hle : d.get a ≤ d.get b)
    (hb : b ∈ donorList d) : a ∈ donorList d := by
  have hs : [a, b].Sublist (sorted d) :=
    List.pair_sublist_mergeSort (le_trans_bool d) (le_total_bool d) (by simpa using hle) hord
  exact pair_sublist_take (sorted_nodup d) _ hs hb

theorem zeroCount_eq_countP (d : Vec) : zeroCount d = (sorted d).countP fun t => decide (d.get t = 0) := by
  unfold zeroCount; rw [← List.countP_eq_length_filter]; exact ((sorted_perm d).countP_eq _).symm

/-- A type which received no damage always donates (damage is non-negative). -/
theorem zero_damage_donates {d : Vec} (hd : ∀ t, 0 ≤ d.get t) {a : Dmg} (ha : d.get a = 0) : a ∈ donorList d := by
  by_contra hn
  have hall : ∀ t ∈ donorList d, (fun t => decide (d.get t = 0)) t = true := by
    intro t ht
    have := donor_le_recipient ht hn
    simp only [decide_eq_true_eq]; linarith [hd t]
  have h1 : (donorList d).countP (fun t => decide (d.get t = 0)) = donorsN d := by
    rw [List.countP_eq_length.mpr hall, donorList_length]
  have h2 : 0 < ((sorted d).drop (donorsN d)).countP (fun t => decide (d.get t = 0)) :=
    List.countP_pos_iff.mpr ⟨a, mem_drop_of_not_donor hn, by simpa using ha⟩
  have h3 := zeroCount_eq_countP d
  rw [sorted_split d, List.countP_append, h1] at h3
  have : zeroCount d ≤ donorsN d := le_max_right _ _
  have h4 : (sorted d).drop (donorsN d) = (donorList d ++ (sorted d).drop (donorsN d)).drop (donorsN d) := by
    rw [← sorted_split d]
  omega

/-! ## Single-type damage -/

/-- Damage of one type only. -/
def SingleType (d : Vec) (a : Dmg) : Prop := 0 < d.get a ∧ ∀ t, t ≠ a → d.get t = 0

theorem single_zeroCount {d : Vec} {a : Dmg} (h : SingleType d a) : donorsN d = 3 := by
  have : zeroCount d = 3 := by
    unfold zeroCount
    have hne := h.1.ne'
    cases a <;> simp [order, List.filter, h.2, hne]
  unfold donorsN; rw [this]; rfl

theorem single_donor_iff {d : Vec} {a : Dmg} (h : SingleType d a) (t : Dmg) : t ∈ donorList d ↔ t ≠ a := by
  have hd : ∀ t, 0 ≤ d.get t := by
    intro t; by_cases ht : t = a
    · subst ht; exact h.1.le
    · rw [h.2 t ht]
  constructor
  · rintro ht rfl
    -- some type is not a donor; it received zero damage, less than `a`
    have hlen : ((sorted d).drop (donorsN d)).length = 1 := by
      rw [List.length_drop, sorted_length, single_zeroCount h]
    obtain ⟨b, hb⟩ := List.exists_mem_of_length_pos (by omega : 0 < ((sorted d).drop (donorsN d)).length)
    have hbn := not_donor_of_mem_drop hb
    have hba : b ≠ t := fun e => hbn (e ▸ ht)
    have := donor_le_recipient ht hbn
    rw [h.2 b hba] at this
    linarith [h.1]
  · intro ht; exact zero_damage_donates hd (h.2 t ht)

theorem list_sum_zero {l : List Rat} (h : ∀ x ∈ l, x = 0) : l.sum = 0 := by
  induction l with
  | nil => simp
  | cons a l ih => simp [h a (by simp), ih (fun x hx => h x (by simp [hx]))]

theorem nextResos_single_donor {d : Vec} {a : Dmg} (h : SingleType d a) (cur : Vec) (s : Rat) {t : Dmg}
    (ht : t ≠ a) : (nextResos cur d s).get t = cur.get t + rmin (1 - cur.get t) s := by
  rw [nextResos_get, if_pos ((single_donor_iff h t).mpr ht)]; rfl

theorem nextResos_single_recipient {d : Vec} {a : Dmg} (h : SingleType d a) (cur : Vec) (s : Rat) :
    (nextResos cur d s).get a = cur.get a - donated cur d s := by
  rw [nextResos_get, if_neg (fun hh => (single_donor_iff h a).mp hh rfl), single_zeroCount h]; simp

/-- All shiftable resistance already sits on the damaged type: nothing moves any more. -/
theorem nextResos_single_fix {d : Vec} {a : Dmg} (h : SingleType d a) {cur : Vec} {s : Rat} (hs : 0 ≤ s)
    (hc : ∀ t, t ≠ a → cur.get t = 1) : nextResos cur d s = cur := by
  have hz : donated cur d s = 0 := by
    apply list_sum_zero
    intro x hx
    obtain ⟨t, ht, rfl⟩ := List.mem_map.mp hx
    have := hc t ((single_donor_iff h t).mp ht)
    unfold donation rmin; rw [this]; simp [hs]
  apply Vec.ext_get
  intro t
  by_cases ht : t = a
  · subst ht; rw [nextResos_single_recipient h, hz]; simp
  · rw [nextResos_single_donor h _ _ ht, hc t ht]; unfold rmin; simp [hs]

/-- `k` consecutive shifts with the same received damage. -/
def iterShift (d : Vec) (s : Rat) (k : Nat) (cur : Vec) : Vec := (fun c => nextResos c d s)^[k] cur

theorem iterShift_succ (d : Vec) (s : Rat) (k : Nat) (cur : Vec) :
    iterShift d s (k + 1) cur = nextResos (iterShift d s k cur) d s := by
  unfold iterShift; rw [Function.iterate_succ_apply']

theorem iterShift_sum {d : Vec} (hd : ∃ t, d.get t ≠ 0) (s : Rat) (k : Nat) (cur : Vec) :
    (iterShift d s k cur).sum = cur.sum := by
  induction k with
  | zero => rfl
  | succ k ih => rw [iterShift_succ, nextResos_sum s hd, ih]

theorem iterShift_single_donor {d : Vec} {a : Dmg} (h : SingleType d a) {cur : Vec} {s : Rat} (hs : 0 ≤ s)
    {t : Dmg} (ht : t ≠ a) (hc : cur.get t ≤ 1) (k : Nat) :
    (iterShift d s k cur).get t = rmin 1 (cur.get t + k * s) := by
  induction k with
  | zero =>
    have : (iterShift d s 0 cur) = cur := rfl
    rw [this]; simp only [Nat.cast_zero, zero_mul, add_zero]; unfold rmin; split_ifs <;> linarith
  | succ k ih =>
    have e : ((k + 1 : Nat) : Rat) * s = (k : Rat) * s + s := by push_cast; ring
    rw [iterShift_succ, nextResos_single_donor h _ _ ht, ih, e]
    generalize (k : Rat) * s = K
    unfold rmin
    split_ifs <;> linarith

theorem vsum_get (l : List Vec) (t : Dmg) : (vsum l).get t = (l.map fun v => v.get t).sum := by
  induction l with
  | nil => cases t <;> rfl
  | cons v l ih => cases t <;> simp [vsum, Vec.get] at ih ⊢ <;> rw [ih]

theorem vsum_sum_const {l : List Vec} {S : Rat} (h : ∀ v ∈ l, v.sum = S) : (vsum l).sum = l.length * S := by
  induction l with
  | nil => simp [vsum, Vec.zero, Vec.sum]
  | cons v l ih =>
    have hv := h v (by simp)
    have := ih (fun w hw => h w (by simp [hw]))
    simp only [vsum, Vec.sum, List.length_cons] at *
    push_cast; linarith

theorem vsum_get_le {l : List Vec} (t : Dmg) (h : ∀ v ∈ l, v.get t ≤ 1) : (vsum l).get t ≤ l.length := by
  rw [vsum_get]
  induction l with
  | nil => simp
  | cons v l ih =>
    have hv := h v (by simp)
    have := ih (fun w hw => h w (by simp [hw]))
    simp only [List.map_cons, List.sum_cons, List.length_cons]; push_cast; linarith

theorem mem_usedFrom {i : Nat} {r : RS} {v : Vec} (h : v ∈ usedFrom i r) : ∃ s ∈ r.snaps, s.2 = v := by
  unfold usedFrom at h
  obtain ⟨s, hs, hv⟩ := List.mem_filterMap.mp h
  refine ⟨s, List.mem_of_mem_drop hs, ?_⟩
  split at hv <;> simp_all

/-- Averaging vectors which all have sum `S` / entries at most 1 gives such a vector. -/
theorem avgFrom_ok {i : Nat} {r : RS} {S : Rat} (hr : r.resos.sum = S ∧ ∀ t, r.resos.get t ≤ 1)
    (hs : ∀ s ∈ r.snaps, s.2.sum = S ∧ ∀ t, s.2.get t ≤ 1) :
    (avgFrom i r).sum = S ∧ ∀ t, (avgFrom i r).get t ≤ 1 := by
  unfold avgFrom
  split
  · exact hr
  · rename_i u hne
    have hu : ∀ v ∈ usedFrom i r, v.sum = S ∧ ∀ t, v.get t ≤ 1 := by
      intro v hv; obtain ⟨s, hs', rfl⟩ := mem_usedFrom hv; exact hs s hs'
    generalize usedFrom i r = u at hne hu
    have hpos : (0 : Rat) < ((u.length : Nat) : Rat) := by
      have : 0 < u.length := List.length_pos_iff.mpr (fun e => hne (e ▸ rfl))
      exact_mod_cast this
    have hsum := vsum_sum_const (fun v hv => (hu v hv).1)
    constructor
    · simp only [Vec.sum] at hsum ⊢
      rw [← add_div, ← add_div, ← add_div, hsum]; field_simp
    · intro t
      have := vsum_get_le t (fun v hv => (hu v hv).2 t)
      have hle : (vsum u).get t / ((u.length : Nat) : Rat) ≤ 1 := by rw [div_le_iff₀ hpos]; linarith
      cases t <;> exact hle

/-! ## `mapO`, `minList` -/

theorem mapO_cons_some {α β : Type} {f : α → Option β} {a : α} {l : List α} {l' : List β}
    (h : mapO f (a :: l) = some l') : ∃ b bs, f a = some b ∧ mapO f l = some bs ∧ l' = b :: bs := by
  unfold mapO at h
  split at h
  · rename_i b bs hb hbs; exact ⟨b, bs, hb, hbs, by simpa using h.symm⟩
  · simp at h

theorem mapO_mem {α β : Type} {f : α → Option β} : ∀ {l : List α} {l' : List β}, mapO f l = some l' →
    ∀ b ∈ l', ∃ a ∈ l, f a = some b
  | [], l', h, b, hb => by simp [mapO] at h; subst h; simp at hb
  | a :: l, l', h, b, hb => by
    obtain ⟨b', bs, hb', hbs, rfl⟩ := mapO_cons_some h
    rcases List.mem_cons.mp hb with rfl | hb
    · exact ⟨a, by simp, hb'⟩
    · obtain ⟨a', ha', h'⟩ := mapO_mem hbs b hb; exact ⟨a', by simp [ha'], h'⟩

theorem mapO_mem_left {α β : Type} {f : α → Option β} : ∀ {l : List α} {l' : List β}, mapO f l = some l' →
    ∀ a ∈ l, ∃ b ∈ l', f a = some b
  | [], _, _, a, ha => by simp at ha
  | a' :: l, l', h, a, ha => by
    obtain ⟨b', bs, hb', hbs, rfl⟩ := mapO_cons_some h
    rcases List.mem_cons.mp ha with rfl | ha
    · exact ⟨b', by simp, hb'⟩
    · obtain ⟨b, hb, h'⟩ := mapO_mem_left hbs a ha; exact ⟨b, by simp [hb], h'⟩

theorem mapO_map_eq {α β γ : Type} {f : α → Option β} {g : β → γ} {g' : α → γ}
    (hg : ∀ a b, f a = some b → g b = g' a) : ∀ {l : List α} {l' : List β}, mapO f l = some l' →
    l'.map g = l.map g'
  | [], l', h => by simp [mapO] at h; subst h; rfl
  | a :: l, l', h => by
    obtain ⟨b', bs, hb', hbs, rfl⟩ := mapO_cons_some h
    simp [hg a b' hb', mapO_map_eq hg hbs]

theorem minList_spec : ∀ {l : List Rat} {m : Rat}, minList l = some m → m ∈ l ∧ ∀ x ∈ l, m ≤ x
  | [], m, h => by simp [minList] at h
  | a :: l, m, h => by
    unfold minList at h
    split at h
    · rename_i hl
      have : l = [] := by
        cases l with
        | nil => rfl
        | cons b l' => unfold minList at hl; split at hl <;> simp at hl
      subst this; simp at h; subst h; simp
    · rename_i m' hm'
      obtain ⟨hmem, hle⟩ := minList_spec hm'
      simp only [Option.some.injEq] at h; subst h
      constructor
      · rcases rmin_mem a m' with e | e <;> rw [e] <;> simp [hmem]
      · intro x hx
        rcases List.mem_cons.mp hx with rfl | hx
        · exact rmin_le_left _ _
        · exact le_trans (rmin_le_right _ _) (hle x hx)

/-! ## Invariant of the tick loop -/

/-- The quantifier's guard on one hardener (absent shift / cycle time are allowed: the run then fails and
    the unsimulated values are used). -/
structure RahOK (r : Rah) : Prop where
  sum_gt : 3 < r.base.sum
  le_one : ∀ t, r.base.get t ≤ 1
  shift_nonneg : ∀ s, r.shift = some s → 0 ≤ s
  dur_pos : ∀ d, r.dur = some d → 0 < d

/-- The guard on the damage profile and what is assumed of the rest of the calculator. -/
structure EnvOK (env : Env) : Prop where
  prof_nonneg : ∀ t, 0 ≤ env.profile.get t
  prof_pos : ∃ t, 0 < env.profile.get t
  ship_pos : ∀ rs s, env.ship rs = some s → (∀ v ∈ rs, ∀ t, 0 < v.get t) → ∀ t, 0 < s.get t

structure Good (r : RS) : Prop where
  ok : RahOK r.rah
  sum : r.resos.sum = r.rah.base.sum
  le_one : ∀ t, r.resos.get t ≤ 1
  dmg_nonneg : ∀ t, 0 ≤ r.dmg.get t
  cyc_nonneg : 0 ≤ r.cyc
  cyc_lt : ∀ d, r.rah.dur = some d → r.cyc < d
  snaps : ∀ s ∈ r.snaps, s.2.sum = r.rah.base.sum ∧ ∀ t, s.2.get t ≤ 1

theorem Good.pos {r : RS} (h : Good r) (t : Dmg) : 0 < r.resos.get t :=
  pos_of_sum_gt_three (h.sum ▸ h.ok.sum_gt) h.le_one t

theorem good_init {r : Rah} (h : RahOK r) : Good (RS.init r) :=
  ⟨h, rfl, h.le_one, by intro t; cases t <;> simp [RS.init, Vec.zero, Vec.get], le_refl _,
   fun d hd => h.dur_pos d hd, by simp [RS.init]⟩

theorem sigRound_congr {x y : Rat} (h : x = y) (n : Nat) : sigRound x n = sigRound y n := by rw [h]

theorem stepCycle_good {tp : Rat} {r r' : RS} (h : stepCycle tp r = some r') (hg : Good r) (htp : 0 < tp)
    (hle : ∀ d, r.rah.dur = some d → tp ≤ d - r.cyc) : Good r' ∧ r'.rah = r.rah := by
  unfold stepCycle at h
  split at h
  · simp at h
  · rename_i d hd
    split at h
    · rename_i a b ha hb
      split at h
      · simp only [Option.some.injEq] at h; subst h
        exact ⟨⟨hg.ok, hg.sum, hg.le_one, hg.dmg_nonneg, le_refl _,
          fun d' hd' => hg.ok.dur_pos d' hd', hg.snaps⟩, rfl⟩
      · rename_i hne
        simp only [Option.some.injEq] at h; subst h
        refine ⟨⟨hg.ok, hg.sum, hg.le_one, hg.dmg_nonneg, by have := hg.cyc_nonneg; simp only; linarith, ?_,
          hg.snaps⟩, rfl⟩
        intro d' hd'
        have hdd : d' = d := by simpa [hd] using hd'.symm
        subst hdd
        have h1 := hle d' hd
        have h2 : r.cyc + tp ≠ d' := by
          intro e; apply hne
          have := sigRound_congr e sigDigits
          rw [ha, hb] at this; simpa using this
        simp only
        exact lt_of_le_of_ne (by linarith) h2
    · simp at h

theorem advance_good {st st1 : List RS} {tp : Rat} (h : advance st = some (tp, st1)) (hg : ∀ r ∈ st, Good r) :
    0 < tp ∧ (∀ r ∈ st1, Good r) ∧ st1.map (·.rah) = st.map (·.rah) := by
  unfold advance at h
  cases hrem : mapO remaining st with
  | none => simp [hrem] at h
  | some rems =>
    cases hmin : minList rems with
    | none => simp [hrem, hmin] at h
    | some m =>
      cases hst : mapO (stepCycle m) st with
      | none => simp [hrem, hmin, hst] at h
      | some st' =>
        simp only [hrem, hmin, hst, Option.map_some, Option.some.injEq, Prod.mk.injEq] at h
        obtain ⟨rfl, rfl⟩ := h
        obtain ⟨hmem, hle⟩ := minList_spec hmin
        have rem_of : ∀ r ∈ st, ∀ d, r.rah.dur = some d → m ≤ d - r.cyc := by
          intro r hr d hd
          obtain ⟨x, hx, hrx⟩ := mapO_mem_left hrem r hr
          have : x = d - r.cyc := by simpa [remaining, hd] using hrx.symm
          exact this ▸ hle x hx
        have hpos : 0 < m := by
          obtain ⟨r, hr, hrx⟩ := mapO_mem hrem m hmem
          unfold remaining at hrx
          cases hd : r.rah.dur with
          | none => simp [hd] at hrx
          | some d =>
            have : d - r.cyc = m := by simpa [hd] using hrx
            have := (hg r hr).cyc_lt d hd
            linarith
        refine ⟨hpos, ?_, ?_⟩
        · intro r' hr'
          obtain ⟨r, hr, hrr⟩ := mapO_mem hst r' hr'
          exact (stepCycle_good hrr (hg r hr) hpos (rem_of r hr)).1
        · exact mapO_map_eq (fun a b hab => by
            by_cases ha : a ∈ st
            · exact (stepCycle_good hab (hg a ha) hpos (rem_of a ha)).2
            · unfold stepCycle at hab
              split at hab
              · simp at hab
              · split at hab
                · split at hab <;> (simp only [Option.some.injEq] at hab; subst hab; rfl)
                · simp at hab) hst

theorem accum_good {env : Env} (he : EnvOK env) {ship : Vec} (hs : ∀ t, 0 < ship.get t) {tp : Rat} (htp : 0 ≤ tp)
    {r : RS} (hg : Good r) :
    Good (accum env.profile ship tp r) ∧ (0 < tp → ∃ t, (accum env.profile ship tp r).dmg.get t ≠ 0) := by
  have hnn : ∀ t, 0 ≤ env.profile.get t * ship.get t * tp := fun t =>
    mul_nonneg (mul_nonneg (he.prof_nonneg t) (hs t).le) htp
  refine ⟨⟨hg.ok, hg.sum, hg.le_one, ?_, hg.cyc_nonneg, hg.cyc_lt, hg.snaps⟩, ?_⟩
  · intro t; simp only [accum, Vec.get_ofFn]; linarith [hg.dmg_nonneg t, hnn t]
  · intro hpos
    obtain ⟨t, ht⟩ := he.prof_pos
    refine ⟨t, ?_⟩
    simp only [accum, Vec.get_ofFn]
    have : 0 < env.profile.get t * ship.get t * tp := mul_pos (mul_pos ht (hs t)) hpos
    linarith [hg.dmg_nonneg t]

theorem shift_good {r r' : RS} (h : shiftIfCycled r = some r') (hg : Good r)
    (hd : r.cycled = true → ∃ t, r.dmg.get t ≠ 0) : Good r' ∧ r'.rah = r.rah := by
  unfold shiftIfCycled at h
  split at h
  · rename_i hc
    split at h
    · simp at h
    · rename_i s hs
      simp only [Option.some.injEq] at h; subst h
      have hs0 : (0 : Rat) ≤ s / 100 := div_nonneg (hg.ok.shift_nonneg s hs) (by norm_num)
      exact ⟨⟨hg.ok, by simp only; rw [nextResos_sum _ (hd hc)]; exact hg.sum,
        fun t => nextResos_le_one _ hg.le_one hs0 t,
        by intro t; cases t <;> simp [Vec.zero, Vec.get], hg.cyc_nonneg, hg.cyc_lt, hg.snaps⟩, rfl⟩
  · simp only [Option.some.injEq] at h; subst h; exact ⟨hg, rfl⟩

theorem snap_good {r : RS} (hg : Good r) : Good (snap r) :=
  ⟨hg.ok, hg.sum, hg.le_one, hg.dmg_nonneg, hg.cyc_nonneg, hg.cyc_lt, by
    intro s hs
    simp only [snap, List.mem_append, List.mem_singleton] at hs
    rcases hs with hs | rfl
    · exact hg.snaps s hs
    · exact ⟨hg.sum, hg.le_one⟩⟩

/-- A result list: per hardener the unsimulated sum is kept and nothing exceeds 1. -/
def OutOK (rahs : List Rah) (resos : List Vec) : Prop :=
  List.Forall₂ (fun (rah : Rah) (v : Vec) => v.sum = rah.base.sum ∧ ∀ t, v.get t ≤ 1) rahs resos

theorem forall₂_map {α β γ : Type} {R : β → γ → Prop} {f : α → β} {g : α → γ} :
    ∀ {l : List α}, (∀ a ∈ l, R (f a) (g a)) → List.Forall₂ R (l.map f) (l.map g)
  | [], _ => List.Forall₂.nil
  | a :: l, h => List.Forall₂.cons (h a (by simp)) (forall₂_map fun x hx => h x (by simp [hx]))

theorem avg_outOK {st : List RS} (hg : ∀ r ∈ st, Good r) (i : Nat) :
    OutOK (st.map (·.rah)) (st.map (avgFrom i)) :=
  forall₂_map fun r hr => avgFrom_ok ⟨(hg r hr).sum, (hg r hr).le_one⟩ (hg r hr).snaps

/-- What `afterTick` computed, when it did not fail. -/
theorem afterTick_cases {env : Env} {before : List RS} {tp : Rat} {s : Sim} {st1 : List RS} {res : Out ⊕ Sim}
    (h : afterTick env before tp s st1 = some res) :
    ∃ ship st3 key fr, env.ship (st1.map (·.resos)) = some ship ∧
      mapO shiftIfCycled (st1.map (accum env.profile ship tp)) = some st3 ∧ mapO keyOf st3 = some key ∧
      ((∃ i, s.seen.findIdx? (· == key) = some i ∧ res = .inl ⟨st3.map (avgFrom i), true, s.ticks + 1, fr⟩) ∨
       (s.seen.findIdx? (· == key) = none ∧ res = .inr ⟨st3.map snap, s.seen ++ [key], s.ticks + 1, fr⟩)) := by
  unfold afterTick at h
  cases hship : env.ship (st1.map (·.resos)) with
  | none => simp [hship] at h
  | some ship =>
    cases h3 : mapO shiftIfCycled (st1.map (accum env.profile ship tp)) with
    | none => simp [hship, h3] at h
    | some st3 =>
      cases hk : mapO keyOf st3 with
      | none => simp [hship, h3, hk] at h
      | some key =>
        simp only [hship, h3, hk] at h
        refine ⟨ship, st3, key, s.frag || tickFrag before tp ship (st1.map (accum env.profile ship tp)) st3,
          rfl, h3, hk, ?_⟩
        cases hf : s.seen.findIdx? (· == key) with
        | none => right; simp only [hf, Option.some.injEq] at h; exact ⟨rfl, h.symm⟩
        | some i => left; simp only [hf, Option.some.injEq] at h; exact ⟨i, rfl, h.symm⟩

theorem afterTick_good {env : Env} (he : EnvOK env) {before : List RS} {tp : Rat} {s : Sim} {st1 : List RS}
    {res : Out ⊕ Sim} (h : afterTick env before tp s st1 = some res) (hg : ∀ r ∈ st1, Good r) (htp : 0 ≤ tp)
    (hc : ∀ r ∈ st1, r.cycled = true → 0 < tp) :
    (∀ o, res = .inl o → OutOK (st1.map (·.rah)) o.resos ∧ o.ticks = s.ticks + 1) ∧
    (∀ s', res = .inr s' → (∀ r ∈ s'.st, Good r) ∧ s'.st.map (·.rah) = st1.map (·.rah) ∧ s'.ticks = s.ticks + 1) := by
  obtain ⟨ship, st3, key, fr, hship, h3, _, hres⟩ := afterTick_cases h
  have hsp : ∀ t, 0 < ship.get t := he.ship_pos _ _ hship (by
    intro v hv t
    obtain ⟨r, hr, rfl⟩ := List.mem_map.mp hv
    exact (hg r hr).pos t)
  have hg3 : ∀ r ∈ st3, Good r := by
    intro r3 hr3
    obtain ⟨r2, hr2, h23⟩ := mapO_mem h3 r3 hr3
    obtain ⟨r1, hr1, rfl⟩ := List.mem_map.mp hr2
    have ha := accum_good he hsp htp (hg r1 hr1)
    exact (shift_good h23 ha.1 (fun hcy => ha.2 (hc r1 hr1 hcy))).1
  have hrah : st3.map (·.rah) = st1.map (·.rah) := by
    have := mapO_map_eq (g := fun (r : RS) => r.rah) (g' := fun (r : RS) => r.rah) (fun a b hab => by
      unfold shiftIfCycled at hab
      split at hab
      · split at hab
        · simp at hab
        · simp only [Option.some.injEq] at hab; subst hab; rfl
      · simp only [Option.some.injEq] at hab; subst hab; rfl) h3
    rw [this, List.map_map]; rfl
  constructor
  · intro o ho
    rcases hres with ⟨i, _, rfl⟩ | ⟨_, rfl⟩
    · simp only [Sum.inl.injEq] at ho; subst ho
      exact ⟨hrah ▸ avg_outOK hg3 i, rfl⟩
    · simp at ho
  · intro s' hs'
    rcases hres with ⟨i, _, rfl⟩ | ⟨_, rfl⟩
    · simp at hs'
    · simp only [Sum.inr.injEq] at hs'; subst hs'
      refine ⟨?_, ?_, rfl⟩
      · intro r hr
        obtain ⟨r3, hr3, rfl⟩ := List.mem_map.mp hr
        exact snap_good (hg3 r3 hr3)
      · simp only [List.map_map]; rw [← hrah]; rfl

theorem noLoop_good {s : Sim} {o : Out} (h : noLoop s = some o) (hg : ∀ r ∈ s.st, Good r) :
    OutOK (s.st.map (·.rah)) o.resos ∧ o.ticks = s.ticks := by
  unfold noLoop at h
  split at h
  · simp at h
  · simp only [Option.some.injEq] at h; subst h; exact ⟨avg_outOK hg _, rfl⟩

theorem run_good {env : Env} (he : EnvOK env) : ∀ (n : Nat) {s : Sim} {o : Out}, run env n s = some o →
    (∀ r ∈ s.st, Good r) → OutOK (s.st.map (·.rah)) o.resos ∧ o.ticks ≤ s.ticks + n
  | 0, s, o, h, hg => by
    unfold run at h
    have := noLoop_good h hg
    exact ⟨this.1, by omega⟩
  | n + 1, s, o, h, hg => by
    unfold run at h
    cases hadv : advance s.st with
    | none => simp [hadv] at h
    | some p =>
      obtain ⟨tp, st1⟩ := p
      obtain ⟨htp, hg1, hrah⟩ := advance_good hadv hg
      cases hat : afterTick env s.st tp s st1 with
      | none => simp [hadv, hat] at h
      | some res =>
        have hgood := afterTick_good he hat hg1 htp.le (fun _ _ _ => htp)
        cases res with
        | inl o' =>
          simp only [hadv, hat, Option.some.injEq] at h; subst h
          have := hgood.1 o' rfl
          exact ⟨hrah ▸ this.1, by omega⟩
        | inr s' =>
          simp only [hadv, hat] at h
          obtain ⟨hg', hrah', hticks⟩ := hgood.2 s' rfl
          have := run_good he n h hg'
          rw [hrah', hrah] at this
          exact ⟨this.1, by omega⟩

theorem simulate_good {env : Env} (he : EnvOK env) {maxT : Nat} {rahs : List Rah} (hr : ∀ r ∈ rahs, RahOK r)
    {o : Out} (h : simulate env maxT rahs = some o) : OutOK rahs o.resos ∧ o.ticks ≤ maxT := by
  have hg0 : ∀ r ∈ rahs.map RS.init, Good r := by
    intro r hr'; obtain ⟨x, hx, rfl⟩ := List.mem_map.mp hr'; exact good_init (hr x hx)
  have hrah0 : (rahs.map RS.init).map (·.rah) = rahs := by
    rw [List.map_map]; conv_rhs => rw [← List.map_id rahs]
    rfl
  unfold simulate at h
  cases maxT with
  | zero =>
    have := noLoop_good h hg0
    simp only at this
    exact ⟨hrah0 ▸ this.1, by simp [this.2]⟩
  | succ m =>
    simp only at h
    cases hat : afterTick env [] 0 ⟨rahs.map RS.init, [], 0, false⟩ (rahs.map RS.init) with
    | none => simp [hat] at h
    | some res =>
      have hgood := afterTick_good he hat hg0 (le_refl 0) (by
        intro r hr' hc
        obtain ⟨x, _, rfl⟩ := List.mem_map.mp hr'
        simp [RS.init] at hc)
      cases res with
      | inl o' =>
        simp only [hat, Option.some.injEq] at h; subst h
        have := hgood.1 o' rfl
        exact ⟨hrah0 ▸ this.1, by simp at this; omega⟩
      | inr s' =>
        simp only [hat] at h
        obtain ⟨hg', hrah', hticks⟩ := hgood.2 s' rfl
        have := run_good he m h hg'
        rw [hrah', hrah0] at this
        simp only at hticks
        exact ⟨this.1, by omega⟩

/-! ## A single hardener's result does not depend on its (positive) cycle time -/

theorem sorted_scale {d1 d2 : Vec} {c : Rat} (hc : 0 < c) (h : ∀ t, d2.get t = c * d1.get t) :
    sorted d2 = sorted d1 := by
  unfold sorted
  congr 1
  funext a b
  rw [h a, h b]
  exact decide_eq_decide.mpr (mul_le_mul_iff_right₀ hc)

theorem zeroCount_scale {d1 d2 : Vec} {c : Rat} (hc : 0 < c) (h : ∀ t, d2.get t = c * d1.get t) :
    zeroCount d2 = zeroCount d1 := by
  unfold zeroCount
  congr 2
  funext t
  rw [h t]
  exact decide_eq_decide.mpr (by constructor <;> intro e <;> simp_all [hc.ne'])

/-- Only the order of the received damage and which entries are zero matter. -/
theorem nextResos_scale {d1 d2 : Vec} {c : Rat} (hc : 0 < c) (h : ∀ t, d2.get t = c * d1.get t) (cur : Vec)
    (s : Rat) : nextResos cur d2 s = nextResos cur d1 s := by
  unfold nextResos donated donorList donorsN
  rw [sorted_scale hc h, zeroCount_scale hc h]

/-- The same state with another cycle time. -/
def withDur (d' : Rat) (r : RS) : RS := { r with rah := { r.rah with dur := some d' } }

theorem mapO_singleton {α β : Type} (f : α → Option β) (a : α) : mapO f [a] = (f a).map fun b => [b] := by
  unfold mapO mapO; cases f a <;> rfl

/-- Results up to the fragility flag. -/
def Out.core (o : Out) : List Vec × Bool × Nat := (o.resos, o.looped, o.ticks)

/-- Two runs of one hardener in lockstep: same state except for the cycle time. -/
def SimRel (d d' : Rat) (s s' : Sim) : Prop :=
  ∃ r : RS, s.st = [r] ∧ s'.st = [withDur d' r] ∧ r.rah.dur = some d ∧ r.cyc = 0 ∧ (∀ t, r.dmg.get t = 0) ∧
    s'.seen = s.seen ∧ s'.ticks = s.ticks

theorem shift_false {r : RS} (hc : r.cycled = false) : shiftIfCycled r = some r := by
  unfold shiftIfCycled; simp [hc]

theorem shift_none {r : RS} (hc : r.cycled = true) (hs : r.rah.shift = none) : shiftIfCycled r = none := by
  unfold shiftIfCycled; rw [if_pos hc]; simp only [hs]

theorem shift_some {r : RS} {sh : Rat} (hc : r.cycled = true) (hs : r.rah.shift = some sh) :
    shiftIfCycled r = some { r with resos := nextResos r.resos r.dmg (sh / 100), dmg := Vec.zero } := by
  unfold shiftIfCycled; rw [if_pos hc]; simp only [hs]

theorem sigRound_ne_none {x : Rat} (h : x ≠ 0) (n : Nat) : ∃ y, sigRound x n = some y := by
  unfold sigRound; simp [h]

theorem advance_single {r : RS} {d : Rat} (hd : r.rah.dur = some d) (hc : r.cyc = 0) (hne : d ≠ 0) :
    advance [r] = some (d, [{ r with cyc := 0, cycled := true }]) := by
  obtain ⟨y, hy⟩ := sigRound_ne_none hne sigDigits
  have h1 : mapO remaining [r] = some [d] := by simp [mapO_singleton, remaining, hd, hc]
  have h2 : stepCycle d r = some { r with cyc := 0, cycled := true } := by
    unfold stepCycle; simp [hd, hc, hy]
  unfold advance
  simp [h1, minList, mapO_singleton, h2]

/-- One loop body on a single hardener, with cycle times `d` (elapsed `tp`) and `d'` (elapsed `tp'`). -/
theorem afterTick_single {env : Env} {b b' : List RS} {tp tp' d' : Rat} {s s' : Sim} {r1 : RS}
    (hseen : s'.seen = s.seen) (hticks : s'.ticks = s.ticks) (hcyc : r1.cyc = 0) (hdmg : ∀ t, r1.dmg.get t = 0)
    (htp : (r1.cycled = false ∧ tp = 0 ∧ tp' = 0) ∨ (r1.cycled = true ∧ 0 < tp ∧ 0 < tp')) :
    (afterTick env b tp s [r1] = none ∧ afterTick env b' tp' s' [withDur d' r1] = none) ∨
    (∃ o o', afterTick env b tp s [r1] = some (.inl o) ∧ afterTick env b' tp' s' [withDur d' r1] = some (.inl o') ∧
      o.core = o'.core) ∨
    (∃ t t' r, afterTick env b tp s [r1] = some (.inr t) ∧ afterTick env b' tp' s' [withDur d' r1] = some (.inr t') ∧
      t.st = [r] ∧ t'.st = [withDur d' r] ∧ r.rah = r1.rah ∧ r.cyc = 0 ∧ (∀ x, r.dmg.get x = 0) ∧
      t'.seen = t.seen ∧ t'.ticks = t.ticks) := by
  unfold afterTick
  simp only [List.map_cons, List.map_nil, mapO_singleton]
  have hres : (withDur d' r1).resos = r1.resos := rfl
  rw [hres]
  cases hship : env.ship [r1.resos] with
  | none => left; simp
  | some ship =>
    simp only []
    -- the shift
    have hshift : ∃ x : Option RS, shiftIfCycled (accum env.profile ship tp r1) = x ∧
        shiftIfCycled (accum env.profile ship tp' (withDur d' r1)) = x.map (withDur d') ∧
        ∀ y, x = some y → y.rah = r1.rah ∧ y.cyc = 0 ∧ (∀ t, y.dmg.get t = 0) := by
      rcases htp with ⟨hc, h0, h0'⟩ | ⟨hc, hp, hp'⟩
      · subst h0 h0'
        refine ⟨some (accum env.profile ship 0 r1), shift_false hc, ?_, ?_⟩
        · rw [shift_false (r := accum env.profile ship 0 (withDur d' r1)) hc]; rfl
        · intro y hy; simp only [Option.some.injEq] at hy; subst hy
          exact ⟨rfl, hcyc, by intro t; simp [accum, hdmg t]⟩
      · cases hs : r1.rah.shift with
        | none =>
          exact ⟨none, shift_none hc hs, shift_none (r := accum env.profile ship tp' (withDur d' r1)) hc hs, by simp⟩
        | some sh =>
          have hsc : nextResos r1.resos (accum env.profile ship tp' (withDur d' r1)).dmg (sh / 100) =
              nextResos r1.resos (accum env.profile ship tp r1).dmg (sh / 100) := by
            apply nextResos_scale (c := tp' / tp) (div_pos hp' hp)
            intro t
            simp only [accum, withDur, Vec.get_ofFn, hdmg t]
            field_simp; ring
          refine ⟨_, shift_some (r := accum env.profile ship tp r1) hc hs, ?_, ?_⟩
          · rw [shift_some (r := accum env.profile ship tp' (withDur d' r1)) hc hs]
            have hr : (accum env.profile ship tp' (withDur d' r1)).resos = r1.resos := rfl
            rw [hr, hsc]
            rfl
          · intro y hy; simp only [Option.some.injEq] at hy; subst hy
            exact ⟨rfl, hcyc, by intro t; cases t <;> rfl⟩
    obtain ⟨x, hx, hx', hprop⟩ := hshift
    rw [hx, hx']
    cases x with
    | none => left; simp
    | some y =>
      simp only [Option.map_some, mapO_singleton]
      have hkey : keyOf (withDur d' y) = keyOf y := rfl
      rw [hkey]
      cases hk : keyOf y with
      | none => left; simp
      | some k =>
        simp only [Option.map_some, hseen]
        cases hf : s.seen.findIdx? (· == [k]) with
        | some i =>
          right; left
          exact ⟨_, _, rfl, rfl, by simp [Out.core, hticks]; rfl⟩
        | none =>
          right; right
          obtain ⟨h1, h2, h3⟩ := hprop y rfl
          exact ⟨_, _, snap y, rfl, rfl, rfl, rfl, h1, h2, h3, by simp, by simp [hticks]⟩

theorem noLoop_single {d d' : Rat} {s s' : Sim} (h : SimRel d d' s s') :
    (noLoop s).map Out.core = (noLoop s').map Out.core := by
  obtain ⟨r, hst, hst', hdur, _, _, hseen, hticks⟩ := h
  have hd' : (withDur d' r).rah.dur = some d' := rfl
  have he : exhaustion (withDur d' r).rah = exhaustion r.rah := rfl
  unfold noLoop estimate
  rw [hst, hst']
  simp only [mapO_singleton, exhKey, hdur, hd', he]
  cases exhaustion r.rah with
  | none => simp
  | some e =>
    simp only [Option.map_some, argmaxFirst]
    have hsn : (withDur d' r).snaps = r.snaps := rfl
    rw [hsn]
    have hav : ∀ i, avgFrom i (withDur d' r) = avgFrom i r := fun _ => rfl
    by_cases hz : ((e : Rat) * 3 / 2).ceil = 0 <;> simp [hz, Out.core, hseen, hticks, hav]

theorem run_single {env : Env} {d d' : Rat} (hd : 0 < d) (hd' : 0 < d') : ∀ (n : Nat) {s s' : Sim},
    SimRel d d' s s' → (run env n s).map Out.core = (run env n s').map Out.core
  | 0, s, s', h => by unfold run; exact noLoop_single h
  | n + 1, s, s', h => by
    obtain ⟨r, hst, hst', hdur, hcyc, hdmg, hseen, hticks⟩ := h
    have hdur' : (withDur d' r).rah.dur = some d' := rfl
    have hcyc' : (withDur d' r).cyc = 0 := hcyc
    unfold run
    rw [hst, hst', advance_single hdur hcyc hd.ne', advance_single hdur' hcyc' hd'.ne']
    simp only []
    have hw : ({ withDur d' r with cyc := 0, cycled := true } : RS) = withDur d' { r with cyc := 0, cycled := true } := rfl
    rw [hw]
    rcases afterTick_single (env := env) (b := [r]) (b' := [withDur d' r]) (tp := d) (tp' := d') (d' := d')
        (r1 := { r with cyc := 0, cycled := true }) hseen hticks rfl hdmg (Or.inr ⟨rfl, hd, hd'⟩) with
      ⟨h1, h2⟩ | ⟨o, o', h1, h2, ho⟩ | ⟨t, t', r', h1, h2, ht, ht', hrah, hc, hdm, hs, hti⟩
    · rw [h1, h2]
    · rw [h1, h2]; simp [ho]
    · rw [h1, h2]
      exact run_single hd hd' n ⟨r', ht, ht', by rw [hrah]; exact hdur, hc, hdm, hs, hti⟩

/-- With one running hardener the simulated resonances are the same for any two positive cycle times. -/
theorem simulate_single_dur {env : Env} {rah : Rah} {d d' : Rat} (hdur : rah.dur = some d) (hd : 0 < d)
    (hd' : 0 < d') (maxT : Nat) :
    (simulate env maxT [rah]).map Out.core = (simulate env maxT [{ rah with dur := some d' }]).map Out.core := by
  have hinit : RS.init { rah with dur := some d' } = withDur d' (RS.init rah) := rfl
  have hdmg0 : ∀ t, (RS.init rah).dmg.get t = 0 := by intro t; cases t <;> rfl
  unfold simulate
  simp only [List.map_cons, List.map_nil, hinit]
  cases maxT with
  | zero => exact noLoop_single ⟨RS.init rah, rfl, rfl, hdur, rfl, hdmg0, rfl, rfl⟩
  | succ m =>
    simp only []
    rcases afterTick_single (env := env) (b := []) (b' := []) (tp := 0) (tp' := 0) (d' := d')
        (s := ⟨[RS.init rah], [], 0, false⟩) (s' := ⟨[withDur d' (RS.init rah)], [], 0, false⟩)
        (r1 := RS.init rah) rfl rfl rfl hdmg0 (Or.inl ⟨rfl, rfl, rfl⟩) with
      ⟨h1, h2⟩ | ⟨o, o', h1, h2, ho⟩ | ⟨t, t', r', h1, h2, ht, ht', hrah, hc, hdm, hs, hti⟩
    · rw [h1, h2]
    · rw [h1, h2]; simp [ho]
    · rw [h1, h2]
      exact run_single hd hd' m ⟨r', ht, ht', by rw [hrah]; exact hdur, hc, hdm, hs, hti⟩

theorem getResults_single_dur {ship : Option (List Vec → Option Vec)} {p : Vec} {rah : Rah} {d d' : Rat}
    (hdur : rah.dur = some d) (hd : 0 < d) (hd' : 0 < d') (maxT : Nat) :
    (getResults ship p maxT [{ rah with dur := some d' }]).1 = (getResults ship p maxT [rah]).1 := by
  unfold getResults
  cases ship with
  | none => rfl
  | some f =>
    have h := simulate_single_dur (env := ⟨f, p⟩) hdur hd hd' maxT
    simp only []
    cases h1 : simulate ⟨f, p⟩ maxT [rah] with
    | none =>
      cases h2 : simulate ⟨f, p⟩ maxT [{ rah with dur := some d' }] with
      | none => rfl
      | some o' => rw [h1, h2] at h; simp at h
    | some o =>
      cases h2 : simulate ⟨f, p⟩ maxT [{ rah with dur := some d' }] with
      | none => rw [h1, h2] at h; simp at h
      | some o' =>
        rw [h1, h2] at h
        simp only [Option.map_some, Option.some.injEq, Out.core, Prod.mk.injEq] at h
        exact h.1.symm

/-! ## Inside the quantifier the simulation does not fail -/

/-- All inputs of a hardener present and inside the quantifier (strictly positive shift amount). -/
structure RahFull (r : Rah) : Prop where
  ok : RahOK r
  shift : ∃ s, r.shift = some s ∧ 0 < s
  dur : ∃ d, r.dur = some d ∧ 0 < d

/-- The calculator always yields ship resonances. -/
structure EnvFull (env : Env) : Prop where
  ok : EnvOK env
  total : ∀ rs, ∃ s, env.ship rs = some s

theorem mapO_some {α β : Type} {f : α → Option β} : ∀ {l : List α}, (∀ a ∈ l, ∃ b, f a = some b) →
    ∃ l', mapO f l = some l'
  | [], _ => ⟨[], rfl⟩
  | a :: l, h => by
    obtain ⟨b, hb⟩ := h a (by simp)
    obtain ⟨bs, hbs⟩ := mapO_some (l := l) (fun x hx => h x (by simp [hx]))
    exact ⟨b :: bs, by unfold mapO; rw [hb, hbs]⟩

theorem mapO_ne_nil {α β : Type} {f : α → Option β} {l : List α} {l' : List β} (h : mapO f l = some l')
    (hne : l ≠ []) : l' ≠ [] := by
  cases l with
  | nil => exact absurd rfl hne
  | cons a l => obtain ⟨b, bs, _, _, rfl⟩ := mapO_cons_some h; simp

theorem minList_some {l : List Rat} (h : l ≠ []) : ∃ m, minList l = some m := by
  cases l with
  | nil => exact absurd rfl h
  | cons a l => unfold minList; split <;> exact ⟨_, rfl⟩

theorem sigRound_some {x : Rat} (h : x ≠ 0) (n : Nat) : ∃ y, sigRound x n = some y := sigRound_ne_none h n

theorem advance_some {st : List RS} (hne : st ≠ []) (hg : ∀ r ∈ st, Good r) (hf : ∀ r ∈ st, RahFull r.rah) :
    ∃ p, advance st = some p := by
  obtain ⟨rems, hrems⟩ := mapO_some (f := remaining) (l := st) (by
    intro r hr
    obtain ⟨d, hd, _⟩ := (hf r hr).dur
    exact ⟨d - r.cyc, by simp [remaining, hd]⟩)
  obtain ⟨m, hm⟩ := minList_some (mapO_ne_nil hrems hne)
  have hmpos : 0 < m := by
    obtain ⟨hmem, _⟩ := minList_spec hm
    obtain ⟨r, hr, hrx⟩ := mapO_mem hrems m hmem
    obtain ⟨d, hd, _⟩ := (hf r hr).dur
    have : d - r.cyc = m := by simpa [remaining, hd] using hrx
    have := (hg r hr).cyc_lt d hd
    linarith
  obtain ⟨st', hst'⟩ := mapO_some (f := stepCycle m) (l := st) (by
    intro r hr
    obtain ⟨d, hd, hdpos⟩ := (hf r hr).dur
    obtain ⟨a, ha⟩ := sigRound_some (x := r.cyc + m) (by have := (hg r hr).cyc_nonneg; linarith) sigDigits
    obtain ⟨b, hb⟩ := sigRound_some hdpos.ne' sigDigits
    unfold stepCycle
    simp only [hd, ha, hb]
    split <;> exact ⟨_, rfl⟩)
  exact ⟨(m, st'), by unfold advance; simp [hrems, hm, hst']⟩

theorem keyOf_some {r : RS} (h : ∀ t, 0 < r.resos.get t) : ∃ k, keyOf r = some k := by
  obtain ⟨a, ha⟩ := sigRound_some (h .em).ne' sigDigits
  obtain ⟨b, hb⟩ := sigRound_some (h .expl).ne' sigDigits
  obtain ⟨c, hc⟩ := sigRound_some (h .kin).ne' sigDigits
  obtain ⟨d, hd⟩ := sigRound_some (h .therm).ne' sigDigits
  simp only [Vec.get] at ha hb hc hd
  exact ⟨(r.cyc, ⟨a, d, c, b⟩), by unfold keyOf; simp only [ha, hb, hc, hd]⟩

theorem afterTick_some {env : Env} (he : EnvFull env) {before : List RS} {tp : Rat} {s : Sim} {st1 : List RS}
    (hg : ∀ r ∈ st1, Good r) (hf : ∀ r ∈ st1, RahFull r.rah) (htp : 0 ≤ tp)
    (hc : ∀ r ∈ st1, r.cycled = true → 0 < tp) : ∃ res, afterTick env before tp s st1 = some res := by
  obtain ⟨ship, hship⟩ := he.total (st1.map (·.resos))
  have hsp : ∀ t, 0 < ship.get t := he.ok.ship_pos _ _ hship (by
    intro v hv t
    obtain ⟨r, hr, rfl⟩ := List.mem_map.mp hv
    exact (hg r hr).pos t)
  obtain ⟨st3, h3⟩ := mapO_some (f := shiftIfCycled) (l := st1.map (accum env.profile ship tp)) (by
    intro r2 hr2
    obtain ⟨r1, hr1, rfl⟩ := List.mem_map.mp hr2
    obtain ⟨sh, hsh, _⟩ := (hf r1 hr1).shift
    by_cases hcy : r1.cycled = true
    · exact ⟨_, shift_some (r := accum env.profile ship tp r1) hcy hsh⟩
    · have hcf : r1.cycled = false := by simpa using hcy
      exact ⟨_, shift_false (r := accum env.profile ship tp r1) hcf⟩)
  have hg3 : ∀ r ∈ st3, Good r := by
    intro r3 hr3
    obtain ⟨r2, hr2, h23⟩ := mapO_mem h3 r3 hr3
    obtain ⟨r1, hr1, rfl⟩ := List.mem_map.mp hr2
    have ha := accum_good he.ok hsp htp (hg r1 hr1)
    exact (shift_good h23 ha.1 (fun hcy => ha.2 (hc r1 hr1 hcy))).1
  obtain ⟨key, hk⟩ := mapO_some (f := keyOf) (l := st3) (fun r hr => keyOf_some (hg3 r hr).pos)
  unfold afterTick
  simp only [hship, h3, hk]
  split <;> exact ⟨_, rfl⟩

theorem exhaustion_some {r : Rah} (h : RahFull r) : ∃ e, exhaustion r = some e := by
  obtain ⟨s, hs, hpos⟩ := h.shift
  unfold exhaustion
  simp only [hs]
  have : s / 100 ≠ 0 := (div_pos hpos (by norm_num)).ne'
  rw [if_neg this]; exact ⟨_, rfl⟩

theorem argmaxFirst_some {α : Type} (key : α → Rat) {l : List α} (h : l ≠ []) : ∃ a, argmaxFirst key l = some a := by
  cases l with
  | nil => exact absurd rfl h
  | cons a l =>
    unfold argmaxFirst
    split
    · exact ⟨_, rfl⟩
    · split <;> exact ⟨_, rfl⟩

theorem noLoop_some {s : Sim} (hne : s.st ≠ []) (hf : ∀ r ∈ s.st, RahFull r.rah) : ∃ o, noLoop s = some o := by
  obtain ⟨l, hl⟩ := mapO_some (f := exhKey) (l := s.st) (by
    intro r hr
    obtain ⟨e, he⟩ := exhaustion_some (hf r hr)
    obtain ⟨d, hd, _⟩ := (hf r hr).dur
    exact ⟨(r, e, (e : Rat) * d), by unfold exhKey; simp only [he, hd]⟩)
  obtain ⟨x, hx⟩ := argmaxFirst_some (fun x : RS × Int × Rat => x.2.2) (mapO_ne_nil hl hne)
  unfold noLoop estimate
  simp only [hl, hx]
  obtain ⟨r, e, k⟩ := x
  by_cases hz : ((e : Rat) * 3 / 2).ceil = 0 <;> simp [hz]

theorem run_some {env : Env} (he : EnvFull env) : ∀ (n : Nat) {s : Sim}, s.st ≠ [] → (∀ r ∈ s.st, Good r) →
    (∀ r ∈ s.st, RahFull r.rah) → ∃ o, run env n s = some o
  | 0, s, hne, _, hf => by unfold run; exact noLoop_some hne hf
  | n + 1, s, hne, hg, hf => by
    obtain ⟨⟨tp, st1⟩, hadv⟩ := advance_some hne hg hf
    obtain ⟨htp, hg1, hrah⟩ := advance_good hadv hg
    have hf1 : ∀ r ∈ st1, RahFull r.rah := by
      intro r hr
      have : r.rah ∈ st1.map (·.rah) := List.mem_map.mpr ⟨r, hr, rfl⟩
      rw [hrah] at this
      obtain ⟨r0, hr0, e⟩ := List.mem_map.mp this
      exact e ▸ hf r0 hr0
    obtain ⟨res, hat⟩ := afterTick_some he (before := s.st) (s := s) hg1 hf1 htp.le (fun _ _ _ => htp)
    unfold run
    simp only [hadv, hat]
    cases res with
    | inl o => exact ⟨o, rfl⟩
    | inr s' =>
      obtain ⟨hg', hrah', _⟩ := (afterTick_good he.ok hat hg1 htp.le (fun _ _ _ => htp)).2 s' rfl
      have hne' : s'.st ≠ [] := by
        intro e
        have := congrArg List.length hrah'
        rw [e, hrah] at this
        simp at this
        exact hne (List.length_eq_zero_iff.mp this.symm)
      have hf' : ∀ r ∈ s'.st, RahFull r.rah := by
        intro r hr
        have : r.rah ∈ s'.st.map (·.rah) := List.mem_map.mpr ⟨r, hr, rfl⟩
        rw [hrah'] at this
        obtain ⟨r0, hr0, e⟩ := List.mem_map.mp this
        exact e ▸ hf1 r0 hr0
      exact run_some he n hne' hg' hf'

/-- Inside the quantifier (all inputs present, shift amount > 0) the simulation produces a result. -/
theorem simulate_some {env : Env} (he : EnvFull env) (maxT : Nat) {rahs : List Rah} (hne : rahs ≠ [])
    (hr : ∀ r ∈ rahs, RahFull r) : ∃ o, simulate env maxT rahs = some o := by
  have hg0 : ∀ r ∈ rahs.map RS.init, Good r := by
    intro r hr'; obtain ⟨x, hx, rfl⟩ := List.mem_map.mp hr'; exact good_init (hr x hx).ok
  have hf0 : ∀ r ∈ rahs.map RS.init, RahFull r.rah := by
    intro r hr'; obtain ⟨x, hx, rfl⟩ := List.mem_map.mp hr'; exact hr x hx
  have hne0 : rahs.map RS.init ≠ [] := by simpa using hne
  unfold simulate
  cases maxT with
  | zero => exact noLoop_some (s := ⟨rahs.map RS.init, [], 0, false⟩) hne0 hf0
  | succ m =>
    simp only []
    have hc0 : ∀ r ∈ rahs.map RS.init, r.cycled = true → (0 : Rat) < 0 := by
      intro r hr' hc
      obtain ⟨x, _, rfl⟩ := List.mem_map.mp hr'
      simp [RS.init] at hc
    obtain ⟨res, hat⟩ := afterTick_some he (before := []) (s := ⟨rahs.map RS.init, [], 0, false⟩) hg0 hf0
      (le_refl 0) hc0
    rw [hat]
    cases res with
    | inl o => exact ⟨o, rfl⟩
    | inr s' =>
      obtain ⟨hg', hrah', _⟩ := (afterTick_good he.ok hat hg0 (le_refl 0) hc0).2 s' rfl
      have hne' : s'.st ≠ [] := by
        intro e
        have := congrArg List.length hrah'
        rw [e] at this
        simp at this
        exact hne (List.length_eq_zero_iff.mp this.symm)
      have hf' : ∀ r ∈ s'.st, RahFull r.rah := by
        intro r hr'
        have : r.rah ∈ s'.st.map (·.rah) := List.mem_map.mpr ⟨r, hr', rfl⟩
        rw [hrah'] at this
        obtain ⟨r0, hr0, e⟩ := List.mem_map.mp this
        exact e ▸ hf0 r0 hr0
      exact run_some he m hne' hg' hf'

/-! ## Stored results are the results of the current inputs -/

variable {σ : Type}

/-- What a fresh run on the world's current inputs yields. -/
def World.current (shipFn : σ → List Vec → Option Vec) (maxT : Nat) (w : World σ) : List Vec :=
  (getResults (w.ship.map shipFn) w.profile maxT w.inputs).1

/-- A damage profile as `DmgProfile` accepts it. -/
def ProfOK (p : Vec) : Prop := (∀ t, 0 ≤ p.get t) ∧ ∃ t, 0 < p.get t

/-- What is assumed of the rest of the calculator, for every ship configuration. -/
def ShipFnOK (shipFn : σ → List Vec → Option Vec) : Prop :=
  ∀ s rs, ∃ v, shipFn s rs = some v ∧ ((∀ x ∈ rs, ∀ t, 0 < x.get t) → ∀ t, 0 < v.get t)

/-- Operations inside the quantifier. -/
def ValidOp : Op σ → Prop
  | .setRahProfile (some p) => ProfOK p
  | .setDefProfile p => ProfOK p
  | .shipMod ts _ => ts ≠ []
  | .setShift _ v => ∃ s, v = some s ∧ 0 < s
  | .setDur _ v => ∃ d, v = some d ∧ 0 < d
  | .setBase _ v => 3 < v.sum ∧ ∀ t, v.get t ≤ 1
  | .start r _ _ => RahFull r
  | _ => True

structure WInv (shipFn : σ → List Vec → Option Vec) (maxT : Nat) (w : World σ) : Prop where
  coh : ∀ r, w.res = some r → r = w.current shipFn maxT
  empty : w.rahs = [] → w.res = none
  full : ∀ x ∈ w.rahs, RahFull x.rah
  prof : ProfOK w.defProfile ∧ ∀ p, w.rahProfile = some p → ProfOK p
  /-- while results computed with a ship are stored, the calculator holds every value the simulator depends on -/
  cached : w.res.isSome → w.ship.isSome →
    (∀ x ∈ w.rahs, x.shiftC = true) ∧ (1 < w.rahs.length → ∀ x ∈ w.rahs, x.durC = true) ∧ ∀ t, t ∈ w.shipC

theorem mem_allDmg (t : Dmg) : t ∈ allDmg := by cases t <;> simp [allDmg]

theorem profOK_profile {w : World σ} (h : ProfOK w.defProfile ∧ ∀ p, w.rahProfile = some p → ProfOK p) :
    ProfOK w.profile := by
  unfold World.profile
  cases hp : w.rahProfile with
  | none => exact h.1
  | some p => exact h.2 p hp

theorem winv_init (shipFn : σ → List Vec → Option Vec) (maxT : Nat) : WInv shipFn maxT (World.init : World σ) :=
  ⟨by intro r h; simp [World.init] at h, fun _ => rfl, by intro x hx; simp [World.init] at hx,
   ⟨⟨by intro t; cases t <;> simp [World.init, Vec.get], ⟨.em, by simp [World.init, Vec.get]⟩⟩,
    by intro p h; simp [World.init] at h⟩,
   by intro h; simp [World.init] at h⟩

/-- Dropping the results restores the invariant for any inputs. -/
theorem winv_clear {shipFn : σ → List Vec → Option Vec} {maxT : Nat} {w : World σ}
    (he : w.rahs = [] → w.res = none) (hf : ∀ x ∈ w.rahs, RahFull x.rah)
    (hp : ProfOK w.defProfile ∧ ∀ p, w.rahProfile = some p → ProfOK p) : WInv shipFn maxT w.clear := by
  unfold World.clear
  split
  · rename_i h
    have hn := he (List.isEmpty_iff.mp h)
    exact ⟨by intro r hr; rw [hn] at hr; simp at hr, he, hf, hp, by intro h'; rw [hn] at h'; simp at h'⟩
  · exact ⟨by intro r hr; simp at hr, fun _ => rfl, hf, hp, by intro h'; simp at h'⟩

theorem markRead_rah (ok : Bool) (l : List RahW) : (markRead ok l).map (·.rah) = l.map (·.rah) := by
  unfold markRead; split
  · rw [List.map_map]; rfl
  · rfl

theorem markRead_nil {ok : Bool} {l : List RahW} (h : markRead ok l = []) : l = [] := by
  have := congrArg (List.map (·.rah)) h
  rw [markRead_rah] at this
  exact List.map_eq_nil_iff.mp this

theorem mem_markRead {ok : Bool} {l : List RahW} {x : RahW} (h : x ∈ markRead ok l) :
    ∃ y ∈ l, x.rah = y.rah ∧ (ok = true → x.shiftC = true ∧ x.durC = true) := by
  unfold markRead at h; split at h
  · obtain ⟨y, hy, rfl⟩ := List.mem_map.mp h; exact ⟨y, hy, rfl, fun _ => ⟨rfl, rfl⟩⟩
  · rename_i hok; exact ⟨x, h, rfl, fun e => absurd e hok⟩

/-- With a ship and inputs inside the quantifier a run succeeds. -/
theorem getResults_ok {shipFn : σ → List Vec → Option Vec} (hs : ShipFnOK shipFn) {s : σ} {p : Vec} (hp : ProfOK p)
    (maxT : Nat) {rahs : List Rah} (hne : rahs ≠ []) (hr : ∀ r ∈ rahs, RahFull r) :
    (getResults (some (shipFn s)) p maxT rahs).2.1 = .ok := by
  have he : EnvFull ⟨shipFn s, p⟩ :=
    ⟨⟨hp.1, hp.2, fun rs v hv hpos => by
        obtain ⟨v', hv', h'⟩ := hs s rs
        have hv'' : shipFn s rs = some v := hv
        rw [hv''] at hv'; cases hv'; exact h' hpos⟩,
     fun rs => (hs s rs).imp fun _ h => h.1⟩
  obtain ⟨o, ho⟩ := simulate_some he maxT hne hr
  unfold getResults; simp [ho]

theorem winv_fill {shipFn : σ → List Vec → Option Vec} (hs : ShipFnOK shipFn) {maxT : Nat} {w : World σ}
    (h : WInv shipFn maxT w) : WInv shipFn maxT (w.fill shipFn maxT) := by
  unfold World.fill
  split
  · exact h
  · rename_i hc
    simp only [Bool.or_eq_true, not_or, Bool.not_eq_true] at hc
    have hne : w.rahs ≠ [] := by intro e; simp [e] at hc
    dsimp only
    refine ⟨?_, ?_, ?_, h.prof, ?_⟩
    · intro r hr
      simp only [Option.some.injEq] at hr
      subst hr
      unfold World.current World.profile World.inputs
      dsimp only
      rw [markRead_rah]
    · intro he; exact absurd (markRead_nil he) hne
    · intro x hx
      obtain ⟨y, hy, hxy, _⟩ := mem_markRead hx
      rw [hxy]; exact h.full y hy
    · intro _ hship
      obtain ⟨s, hs'⟩ := Option.isSome_iff_exists.mp hship
      have hok : (getResults (w.ship.map shipFn) w.profile maxT w.inputs).2.1 = .ok := by
        rw [hs', Option.map_some]
        refine getResults_ok hs (profOK_profile h.prof) maxT ?_ ?_
        · unfold World.inputs; simpa using hne
        · intro r hr
          obtain ⟨x, hx, rfl⟩ := List.mem_map.mp hr
          exact h.full x hx
      have hflags : ∀ x ∈ markRead ((getResults (w.ship.map shipFn) w.profile maxT w.inputs).2.1 == Outcome.ok) w.rahs,
          x.shiftC = true ∧ x.durC = true := by
        intro x hx
        obtain ⟨_, _, _, hf⟩ := mem_markRead hx
        exact hf (by rw [hok]; rfl)
      refine ⟨fun x hx => (hflags x hx).1, fun _ x hx => (hflags x hx).2, ?_⟩
      intro t; rw [hs']; exact mem_allDmg t

theorem modify_mem {α : Type} {l : List α} {i : Nat} {f : α → α} {x : α} (h : x ∈ l.modify i f) :
    x ∈ l ∨ ∃ y ∈ l, x = f y := by
  induction l generalizing i with
  | nil => simp at h
  | cons a l ih =>
    cases i with
    | zero =>
      simp only [List.modify_cons, if_true] at h
      rcases List.mem_cons.mp h with rfl | h
      · exact Or.inr ⟨a, by simp, rfl⟩
      · exact Or.inl (by simp [h])
    | succ i =>
      simp only [List.modify_succ_cons] at h
      rcases List.mem_cons.mp h with rfl | h
      · exact Or.inl (by simp)
      · rcases ih h with h | ⟨y, hy, rfl⟩
        · exact Or.inl (by simp [h])
        · exact Or.inr ⟨y, by simp [hy], rfl⟩

theorem modify_eq_nil {α : Type} {l : List α} {i : Nat} {f : α → α} : l.modify i f = [] ↔ l = [] := by
  constructor
  · intro h; have := congrArg List.length h; simp at this; exact this
  · rintro rfl; simp

/-- All flags true means: an uncached index is out of range, and the update is then void. -/
theorem modify_void {l : List RahW} {i : Nat} {g : RahW → Bool} (f : RahW → RahW) (hall : ∀ x ∈ l, g x = true)
    (hun : (l[i]?.map g).getD false = false) : l.modify i f = l := by
  cases hi : l[i]? with
  | none => exact List.modify_eq_self (by simpa using List.getElem?_eq_none_iff.mp hi) 
  | some x =>
    have hx : x ∈ l := List.mem_of_getElem? hi
    rw [hi] at hun
    simp [hall x hx] at hun

theorem map_modify_eq {α β : Type} (g : α → β) (f : α → α) (hf : ∀ x, g (f x) = g x) :
    ∀ (l : List α) (i : Nat), (l.modify i f).map g = l.map g
  | [], _ => by simp
  | a :: l, 0 => by simp [hf]
  | a :: l, i + 1 => by simp [map_modify_eq g f hf l i]

/-- Without a ship the exposed values are the hardeners' unsimulated resonances, whatever else changed. -/
theorem current_no_ship {shipFn : σ → List Vec → Option Vec} {maxT : Nat} {w w' : World σ} (hs : w.ship = none)
    (hs' : w'.ship = none) (hb : w'.rahs.map (·.rah.base) = w.rahs.map (·.rah.base)) :
    w'.current shipFn maxT = w.current shipFn maxT := by
  unfold World.current World.inputs getResults
  simp only [hs, hs', Option.map_none, List.map_map]
  exact hb

theorem winv_step {shipFn : σ → List Vec → Option Vec} (hs : ShipFnOK shipFn) {maxT : Nat} {w : World σ}
    (h : WInv shipFn maxT w) (op : Op σ) (hp : ValidOp op) : WInv shipFn maxT (w.step shipFn maxT op) := by
  have full_mod : ∀ (i : Nat) (f : RahW → RahW), (∀ x, RahFull x.rah → RahFull (f x).rah) →
      ∀ x ∈ w.rahs.modify i f, RahFull x.rah := by
    intro i f hf x hx
    rcases modify_mem hx with hx | ⟨y, hy, rfl⟩
    · exact h.full x hx
    · exact hf y (h.full y hy)
  cases op with
  | readRah => exact winv_fill hs h
  | readShip t =>
    simp only [World.step]
    split
    · exact h
    · have hf := winv_fill (maxT := maxT) hs h
      split
      · exact hf
      · refine ⟨hf.coh, hf.empty, hf.full, hf.prof, ?_⟩
        intro h1 h2
        obtain ⟨a, b, c⟩ := hf.cached h1 h2
        exact ⟨a, b, fun t' => List.mem_cons_of_mem _ (c t')⟩
  | setRahProfile p =>
    simp only [World.step]
    have hprof : ProfOK w.defProfile ∧ ∀ q, p = some q → ProfOK q := by
      refine ⟨h.prof.1, ?_⟩
      intro q hq; subst hq; exact hp
    split
    · rename_i hpp
      refine ⟨?_, h.empty, h.full, hprof, h.cached⟩
      intro r hr
      rw [h.coh r hr]; unfold World.current World.profile World.inputs; simp only [hpp]; rfl
    · exact winv_clear (w := { w with rahProfile := p }) h.empty h.full hprof
  | setDefProfile p =>
    simp only [World.step]
    have hprof : ProfOK p ∧ ∀ q, w.rahProfile = some q → ProfOK q := ⟨hp, h.prof.2⟩
    split
    · exact winv_clear (w := { w with defProfile := p }) h.empty h.full hprof
    · rename_i hc
      refine ⟨?_, h.empty, h.full, hprof, h.cached⟩
      intro r hr
      rw [h.coh r hr]; unfold World.current World.profile World.inputs
      simp only [Bool.and_eq_true, decide_eq_true_eq, not_and, Bool.not_eq_true, Option.isNone_eq_false_iff,
        Option.isSome_iff_exists, ne_eq] at hc
      by_cases hpd : p = w.defProfile
      · subst hpd; rfl
      · obtain ⟨q, hq⟩ := hc hpd
        simp only [hq, Option.getD_some]
  | setShip s =>
    simp only [World.step]
    split
    · exact h
    · exact winv_clear (w := { w with ship := s, shipC := [] }) h.empty h.full h.prof
  | shipMod ts s =>
    simp only [World.step]
    split
    · exact h
    · rename_i hship
      split
      · exact winv_clear (w := { w with ship := some s, shipC := _ }) h.empty h.full h.prof
      · rename_i hun
        -- nothing cached among `ts`: then no results are stored
        have hres : w.res = none := by
          cases hr : w.res with
          | none => rfl
          | some r =>
            exfalso
            have hsome : w.ship.isSome = true := by cases hw : w.ship <;> simp_all
            obtain ⟨_, _, hc⟩ := h.cached (by simp [hr]) hsome
            obtain ⟨t, ht⟩ := List.exists_mem_of_ne_nil ts hp
            exact hun (List.any_eq_true.mpr ⟨t, ht, by simpa using hc t⟩)
        exact ⟨by intro r hr; rw [hres] at hr; simp at hr, h.empty, h.full, h.prof,
          by intro h1; rw [hres] at h1; simp at h1⟩
  | setShift i v =>
    obtain ⟨sv, rfl, hsv⟩ := hp
    simp only [World.step]
    have hfull := full_mod i (fun x => { x with rah := { x.rah with shift := some sv }, shiftC := false })
      (fun x hx => ⟨⟨hx.ok.sum_gt, hx.ok.le_one, by intro s' hs'; cases hs'; exact hsv.le, hx.ok.dur_pos⟩,
        ⟨sv, rfl, hsv⟩, hx.dur⟩)
    have he : (w.rahs.modify i fun x => { x with rah := { x.rah with shift := some sv }, shiftC := false }) = [] →
        w.res = none := fun e => h.empty (modify_eq_nil.mp e)
    split
    · exact winv_clear (w := { w with rahs := _ }) he hfull h.prof
    · rename_i hun
      have hun' : (w.rahs[i]?.map (·.shiftC)).getD false = false := by simpa using hun
      by_cases hcase : w.res.isSome ∧ w.ship.isSome
      · -- every shift amount is cached: the index is out of range and nothing changed
        obtain ⟨hc1, _, _⟩ := h.cached hcase.1 hcase.2
        have hvoid := modify_void (g := (·.shiftC))
          (fun x => { x with rah := { x.rah with shift := some sv }, shiftC := false }) hc1 hun'
        have e : ({ w with rahs := w.rahs.modify i fun x =>
            { x with rah := { x.rah with shift := some sv }, shiftC := false } } : World σ) = w := by rw [hvoid]
        rw [e]; exact h
      · refine ⟨?_, he, hfull, h.prof, fun h1 h2 => absurd ⟨h1, h2⟩ hcase⟩
        intro r hr
        have hr' : w.res = some r := hr
        have hsh : w.ship = none := by
          cases hw : w.ship with
          | none => rfl
          | some s => exact absurd ⟨by simp [hr'], by simp [hw]⟩ hcase
        rw [h.coh r hr']
        exact (current_no_ship (w := w) (w' := { w with rahs := w.rahs.modify i fun x =>
          { x with rah := { x.rah with shift := some sv }, shiftC := false } }) hsh hsh
          (map_modify_eq (fun x : RahW => x.rah.base)
            (fun x => { x with rah := { x.rah with shift := some sv }, shiftC := false }) (fun _ => rfl) w.rahs i)).symm
  | setDur i v =>
    obtain ⟨d', rfl, hd'⟩ := hp
    simp only [World.step]
    have hfull := full_mod i (fun x => { x with rah := { x.rah with dur := some d' }, durC := false })
      (fun x hx => ⟨⟨hx.ok.sum_gt, hx.ok.le_one, hx.ok.shift_nonneg, by intro d hd; cases hd; exact hd'⟩,
        hx.shift, ⟨d', rfl, hd'⟩⟩)
    have he : (w.rahs.modify i fun x => { x with rah := { x.rah with dur := some d' }, durC := false }) = [] →
        w.res = none := fun e => h.empty (modify_eq_nil.mp e)
    split
    · exact winv_clear (w := { w with rahs := _ }) he hfull h.prof
    · rename_i hcond
      by_cases hlen : 1 < w.rahs.length
      · have hun' : (w.rahs[i]?.map (·.durC)).getD false = false := by simpa [hlen] using hcond
        by_cases hcase : w.res.isSome ∧ w.ship.isSome
        · obtain ⟨_, hc2, _⟩ := h.cached hcase.1 hcase.2
          have hvoid := modify_void (g := (·.durC))
            (fun x => { x with rah := { x.rah with dur := some d' }, durC := false }) (hc2 hlen) hun'
          have e : ({ w with rahs := w.rahs.modify i fun x =>
              { x with rah := { x.rah with dur := some d' }, durC := false } } : World σ) = w := by rw [hvoid]
          rw [e]; exact h
        · refine ⟨?_, he, hfull, h.prof, fun h1 h2 => absurd ⟨h1, h2⟩ hcase⟩
          intro r hr
          have hr' : w.res = some r := hr
          have hsh : w.ship = none := by
            cases hw : w.ship with
            | none => rfl
            | some s => exact absurd ⟨by simp [hr'], by simp [hw]⟩ hcase
          rw [h.coh r hr']
          exact (current_no_ship (w := w) (w' := { w with rahs := w.rahs.modify i fun x =>
            { x with rah := { x.rah with dur := some d' }, durC := false } }) hsh hsh
            (map_modify_eq (fun x : RahW => x.rah.base)
              (fun x => { x with rah := { x.rah with dur := some d' }, durC := false }) (fun _ => rfl) w.rahs i)).symm
      · -- at most one running hardener: its cycle time does not matter
        refine ⟨?_, he, hfull, h.prof, ?_⟩
        · intro r hr
          have hr' : w.res = some r := hr
          rw [h.coh r hr']
          unfold World.current World.profile World.inputs
          simp only []
          match hw : w.rahs, hlen with
          | [], _ => simp
          | [x], _ =>
            cases i with
            | zero =>
              obtain ⟨d, hd, hdpos⟩ := (h.full x (by rw [hw]; simp)).dur
              simp only [List.modify_cons, if_true, List.modify_nil, List.map_cons, List.map_nil]
              exact (getResults_single_dur hd hdpos hd' maxT).symm
            | succ i => simp
          | _ :: _ :: _, hl => simp at hl
        · intro h1 h2
          obtain ⟨a, _, c⟩ := h.cached h1 h2
          refine ⟨?_, fun hl => absurd (by simpa using hl) hlen, c⟩
          intro x hx
          rcases modify_mem hx with hx | ⟨y, hy, rfl⟩
          · exact a x hx
          · exact a y hy
  | setBase i v =>
    exact winv_clear (w := { w with rahs := _ }) (fun e => h.empty (modify_eq_nil.mp e))
      (full_mod i _ (fun x hx => ⟨⟨hp.1, hp.2, hx.ok.shift_nonneg, hx.ok.dur_pos⟩, hx.shift, hx.dur⟩)) h.prof
  | start r sc dc =>
    refine ⟨by intro x hx; simp [World.step] at hx, fun _ => rfl, ?_, h.prof, by intro h1; simp [World.step] at h1⟩
    intro x hx
    simp only [World.step, List.mem_append, List.mem_singleton] at hx
    rcases hx with hx | rfl
    · exact h.full x hx
    · exact hp
  | stop i =>
    refine ⟨by intro x hx; simp [World.step] at hx, fun _ => rfl, ?_, h.prof, by intro h1; simp [World.step] at h1⟩
    intro x hx
    exact h.full x (List.mem_of_mem_eraseIdx hx)

theorem winv_run {shipFn : σ → List Vec → Option Vec} (hs : ShipFnOK shipFn) {maxT : Nat} :
    ∀ (ops : List (Op σ)) {w : World σ}, WInv shipFn maxT w → (∀ op ∈ ops, ValidOp op) →
      WInv shipFn maxT (w.run shipFn maxT ops)
  | [], _, h, _ => h
  | op :: ops, w, h, hp => by
    have := winv_run hs ops (winv_step hs h op (hp op (by simp))) (fun o ho => hp o (by simp [ho]))
    simpa [World.run] using this

end Eos.Rah
