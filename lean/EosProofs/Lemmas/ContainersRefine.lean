import EosProofs.Lemmas.ContainersReach
/-! Helper lemmas for the refinement statements of C07: what `free`/`remove` do to the abstract rack, how
each rack operation relates the item sequences before and after, key lookups after keyed updates. -/
namespace Eos.Containers

theorem listFreeAt_slotAt (s : World) (f r k : Nat) (hk : k < (s.lists f r).length) (j : Nat) :
    slotAt ((listFreeAt s f r k).2.lists f r) j = if j = k then none else slotAt (s.lists f r) j := by
  obtain ⟨x, hv⟩ : ∃ x, (s.lists f r)[k]? = some x := ⟨_, List.getElem?_eq_getElem hk⟩
  rw [listFreeAt_eq s f r k x hv]
  cases x with
  | none =>
    by_cases hj : j = k
    · rw [if_pos hj, hj]; exact slotAt_eq_none_of_getElem? hv
    · rw [if_neg hj]
  | some i => simp only [setList_lists_same, slotAt_cleanup]; exact slotAt_set hk none j

theorem listRemoveAt_slotAt (s : World) (f r k : Nat) (j : Nat) :
    slotAt ((listRemoveAt s f r k).2.lists f r) j = if j < k then slotAt (s.lists f r) j else slotAt (s.lists f r) (j + 1) := by
  unfold listRemoveAt
  simp only [setList_lists_same, slotAt_cleanup]
  exact slotAt_eraseIdx _ k j

/-- How the item sequence of a rack changes: not at all, one item enters, one item leaves, or emptied. -/
inductive ItemsStep (A B : List Nat) : Prop
  | same (h : B = A)
  | enter (i : Nat) (h : IsInsertion i A B)
  | leave (i : Nat) (h : IsInsertion i B A)
  | emptied (h : B = [])

theorem ItemsStep.sublist {A B : List Nat} (h : ItemsStep A B) : A.Sublist B ∨ B.Sublist A := by
  cases h with
  | same h => exact Or.inl (h ▸ List.Sublist.refl _)
  | enter i h => exact Or.inl h.sublist
  | leave i h => exact Or.inr h.sublist
  | emptied h => exact Or.inr (h ▸ List.nil_sublist _)

theorem listRemoveAt_items (s : World) (f r k : Nat) (hk : k < (s.lists f r).length) :
    ItemsStep (items (s.lists f r)) (items ((listRemoveAt s f r k).2.lists f r)) := by
  obtain ⟨x, hv⟩ : ∃ x, (s.lists f r)[k]? = some x := ⟨_, List.getElem?_eq_getElem hk⟩
  rw [listRemoveAt_eq s f r k x hv]
  simp only [setList_lists_same, items_cleanup]
  cases x with
  | none => exact .same (items_eraseIdx_none hv)
  | some i => exact .leave i (items_eraseIdx_some hv)

theorem listFreeAt_items (s : World) (f r k : Nat) (hk : k < (s.lists f r).length) :
    ItemsStep (items (s.lists f r)) (items ((listFreeAt s f r k).2.lists f r)) := by
  obtain ⟨x, hv⟩ : ∃ x, (s.lists f r)[k]? = some x := ⟨_, List.getElem?_eq_getElem hk⟩
  rw [listFreeAt_eq s f r k x hv]
  cases x with
  | none => exact .same rfl
  | some i => simp only [setList_lists_same, items_cleanup]; exact .leave i (items_set_none hv)

/-- Every operation changes the item sequence of every rack by at most one entering or leaving item (or
empties it): the relative order of the items that stay is kept. -/
theorem step_rack_items (U : Univ) {s : World} (h : OwnInv s) (op : Op) (f r : Nat) :
    ItemsStep (items (s.lists f r)) (items ((step U s op).2.lists f r)) := by
  by_cases ht : op.rackTarget = some (f, r)
  · have hnt := h.noTrail f r
    cases op with
    | insert f' r' index v =>
      simp only [Op.rackTarget, Option.some.injEq, Prod.mk.injEq] at ht; obtain ⟨rfl, rfl⟩ := ht
      rcases listInsert_cases U s f' r' index v hnt with e | ⟨_, e⟩ | ⟨i, _, _, e⟩ | ⟨i, _, _, e⟩ <;> (simp only [step]; rw [e])
      · exact .same rfl
      · exact .same (by simp)
      · exact .same rfl
      · exact .enter i (by simpa using items_pyInsert_some (allocate (s.lists f' r') (index - 1)) _ i)
    | append f' r' v =>
      simp only [Op.rackTarget, Option.some.injEq, Prod.mk.injEq] at ht; obtain ⟨rfl, rfl⟩ := ht
      rcases listAppend_cases U s f' r' v with e | ⟨i, _, _, e⟩ | ⟨i, _, _, e⟩ <;> (simp only [step]; rw [e])
      · exact .same rfl
      · exact .same rfl
      · exact .enter i ⟨items (s.lists f' r'), [], by simp, by simp⟩
    | place f' r' index v =>
      simp only [Op.rackTarget, Option.some.injEq, Prod.mk.injEq] at ht; obtain ⟨rfl, rfl⟩ := ht
      rcases listPlace_cases U s f' r' index v hnt with ⟨_, e⟩ | ⟨i, _, k, _, hv, _, e⟩ <;> (simp only [step]; rw [e])
      · exact .same rfl
      · exact .enter i (by simpa using items_set_hole hv i)
    | equip f' r' v =>
      simp only [Op.rackTarget, Option.some.injEq, Prod.mk.injEq] at ht; obtain ⟨rfl, rfl⟩ := ht
      rcases listEquip_cases U s f' r' v hnt with ⟨_, e⟩ | ⟨i, _, _, ⟨k, hv, _, e⟩ | ⟨_, e⟩⟩ <;> (simp only [step]; rw [e])
      · exact .same rfl
      · exact .enter i (by simpa using items_set_hole hv i)
      · exact .enter i ⟨items (s.lists f' r'), [], by simp, by simp⟩
    | removeIdx f' r' index =>
      simp only [Op.rackTarget, Option.some.injEq, Prod.mk.injEq] at ht; obtain ⟨rfl, rfl⟩ := ht
      rcases listAtIdx_cases listRemoveAt s f' r' index with e | ⟨k, _, hk, e⟩ <;> (simp only [step]; rw [e])
      · exact .same rfl
      · exact listRemoveAt_items s f' r' k hk
    | removeVal f' r' v =>
      simp only [Op.rackTarget, Option.some.injEq, Prod.mk.injEq] at ht; obtain ⟨rfl, rfl⟩ := ht
      rcases listAtVal_cases listRemoveAt s f' r' v with e | ⟨k, hk, _, e⟩ <;> (simp only [step]; rw [e])
      · exact .same rfl
      · exact listRemoveAt_items s f' r' k (lt_length_of_getElem? hk)
    | freeIdx f' r' index =>
      simp only [Op.rackTarget, Option.some.injEq, Prod.mk.injEq] at ht; obtain ⟨rfl, rfl⟩ := ht
      rcases listAtIdx_cases listFreeAt s f' r' index with e | ⟨k, _, hk, e⟩ <;> (simp only [step]; rw [e])
      · exact .same rfl
      · exact listFreeAt_items s f' r' k hk
    | freeVal f' r' v =>
      simp only [Op.rackTarget, Option.some.injEq, Prod.mk.injEq] at ht; obtain ⟨rfl, rfl⟩ := ht
      rcases listAtVal_cases listFreeAt s f' r' v with e | ⟨k, hk, _, e⟩ <;> (simp only [step]; rw [e])
      · exact .same rfl
      · exact listFreeAt_items s f' r' k (lt_length_of_getElem? hk)
    | clear f' r' =>
      simp only [Op.rackTarget, Option.some.injEq, Prod.mk.injEq] at ht; obtain ⟨rfl, rfl⟩ := ht
      exact .emptied (by simp [step, listClear])
    | _ => simp [Op.rackTarget] at ht
  · rw [step_lists_same U s op f r ht]; exact .same rfl

/-! ### key lookups -/

theorem lookupKey_cons (k key i : Nat) (l : List (Nat × Nat)) :
    lookupKey k ((key, i) :: l) = if key = k then some i else lookupKey k l := rfl

theorem lookupKey_delKey (k key : Nat) (l : List (Nat × Nat)) :
    lookupKey k (delKey key l) = if k = key then none else lookupKey k l := by
  induction l with
  | nil => simp [delKey, lookupKey]
  | cons e es ih =>
    obtain ⟨k', v'⟩ := e
    by_cases hk : k' = key
    · have : delKey key ((k', v') :: es) = delKey key es := by simp [delKey, hk]
      rw [this, ih, lookupKey_cons]
      by_cases hkk : k = key
      · simp [hkk]
      · have : k' ≠ k := fun e => hkk (by rw [← e, hk])
        simp [hkk, this]
    · have : delKey key ((k', v') :: es) = (k', v') :: delKey key es := by simp [delKey, hk]
      rw [this, lookupKey_cons, lookupKey_cons, ih]
      by_cases hkk : k' = k
      · have : k ≠ key := fun e => hk (by rw [hkk, e])
        simp [hkk, this]
      · simp [hkk]

theorem KeyedInv.len {s : World} {c : SetId} (h : KeyedInv s c) : keyedLen s c = setLen s c := by
  unfold keyedLen setLen; rw [← h.vals, List.length_map]

theorem KeyedInv.lookup_mem {s : World} {c : SetId} (h : KeyedInv s c) {k i : Nat} (hl : lookupKey k (s.keyed c) = some i) :
    i ∈ s.sets c := by
  rw [← h.vals]; exact List.mem_map_of_mem (f := Prod.snd) (lookupKey_some_mem hl)

theorem KeyedInv.mem_lookup {s : World} {c : SetId} (h : KeyedInv s c) {i : Nat} (hi : i ∈ s.sets c) :
    ∃ k, lookupKey k (s.keyed c) = some i := by
  rw [← h.vals, List.mem_map] at hi
  obtain ⟨⟨k, v⟩, hm, rfl⟩ := hi
  exact ⟨k, mem_lookupKey h.keys hm⟩

end Eos.Containers
