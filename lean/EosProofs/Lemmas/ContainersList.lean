import EosModel.Containers
/-! Facts about the Python list primitives of the container model (`allocate`, `cleanup`, `pyIndex`,
`pyInsert`, `indexOf?`) and about racks seen as partial maps position → item.  Core Lean only. -/
namespace Eos.Containers

/-- "No trailing holes": the last slot, if any, holds an item. -/
def NoTrail (l : List (Option Nat)) : Prop := l.getLast? ≠ some none

/-- The abstract rack: which item sits at position `j` (holes and positions past the end are `none`). -/
def slotAt (l : List (Option Nat)) (j : Nat) : Option Nat := (l[j]?).join

/-- `B` is `A` with `i` put somewhere, everything else keeping its order. -/
def IsInsertion (i : Nat) (A B : List Nat) : Prop := ∃ a b, A = a ++ b ∧ B = a ++ i :: b

@[simp] theorem items_nil : items [] = [] := rfl
@[simp] theorem items_cons_none (l : List (Option Nat)) : items (none :: l) = items l := rfl
@[simp] theorem items_cons_some (i : Nat) (l : List (Option Nat)) : items (some i :: l) = i :: items l := rfl
@[simp] theorem items_append (a b : List (Option Nat)) : items (a ++ b) = items a ++ items b := by
  simp [items, List.filterMap_append]
@[simp] theorem items_replicate_none (n : Nat) : items (List.replicate n none) = [] := by
  induction n with
  | zero => rfl
  | succ n ih => simpa [List.replicate_succ] using ih

theorem mem_items {l : List (Option Nat)} {x : Nat} : x ∈ items l ↔ some x ∈ l := by
  simp [items, List.mem_filterMap]

@[simp] theorem items_allocate (l : List (Option Nat)) (n : Int) : items (allocate l n) = items l := by
  simp [allocate]

/-! ### cleanup -/

@[simp] theorem cleanup_nil : cleanup [] = [] := rfl

theorem cleanup_cons (x : Option Nat) (xs : List (Option Nat)) :
    cleanup (x :: xs) = if x = none ∧ cleanup xs = [] then [] else x :: cleanup xs := by
  cases x <;> cases h : cleanup xs <;> simp [cleanup, h]

theorem cleanup_replicate_none (n : Nat) : cleanup (List.replicate n none) = [] := by
  induction n with
  | zero => rfl
  | succ n ih => simp [List.replicate_succ, cleanup_cons, ih]

theorem cleanup_append_nones (l : List (Option Nat)) (n : Nat) :
    cleanup (l ++ List.replicate n none) = cleanup l := by
  induction l with
  | nil => simp [cleanup_replicate_none]
  | cons x xs ih => simp [cleanup_cons, ih]

theorem noTrail_nil : NoTrail [] := by simp [NoTrail]

theorem noTrail_cons {x : Option Nat} {xs : List (Option Nat)} :
    NoTrail (x :: xs) ↔ (xs = [] → x ≠ none) ∧ (xs ≠ [] → NoTrail xs) := by
  cases xs with
  | nil => simp [NoTrail]
  | cons y ys => simp [NoTrail, List.getLast?_cons_cons]

theorem cleanup_eq_nil_iff {l : List (Option Nat)} : cleanup l = [] ↔ ∀ x ∈ l, x = none := by
  induction l with
  | nil => simp
  | cons x xs ih =>
    simp only [List.mem_cons, forall_eq_or_imp, ← ih, cleanup_cons]
    split <;> simp_all

theorem cleanup_of_noTrail {l : List (Option Nat)} (h : NoTrail l) : cleanup l = l := by
  induction l with
  | nil => rfl
  | cons x xs ih =>
    rw [noTrail_cons] at h
    by_cases hxs : xs = []
    · subst hxs; have := h.1 rfl; simp [cleanup_cons, this]
    · have h2 := ih (h.2 hxs)
      rw [cleanup_cons, h2]; simp [hxs]

theorem noTrail_cleanup (l : List (Option Nat)) : NoTrail (cleanup l) := by
  induction l with
  | nil => exact noTrail_nil
  | cons x xs ih =>
    rw [cleanup_cons]
    split
    · exact noTrail_nil
    · rename_i h
      rw [noTrail_cons]
      refine ⟨fun hn hx => h ⟨hx, hn⟩, fun _ => ih⟩

/-- `cleanup` only removes a block of trailing holes. -/
theorem cleanup_spec (l : List (Option Nat)) : ∃ n, l = cleanup l ++ List.replicate n none := by
  induction l with
  | nil => exact ⟨0, rfl⟩
  | cons x xs ih =>
    obtain ⟨n, hn⟩ := ih
    rw [cleanup_cons]
    split
    · rename_i h
      refine ⟨n + 1, ?_⟩
      rw [h.2] at hn
      simp [h.1, hn, List.replicate_succ]
    · exact ⟨n, by simp [← hn]⟩

@[simp] theorem items_cleanup (l : List (Option Nat)) : items (cleanup l) = items l := by
  obtain ⟨n, hn⟩ := cleanup_spec l
  conv => rhs; rw [hn]
  simp

theorem cleanup_allocate {l : List (Option Nat)} (h : NoTrail l) (n : Int) : cleanup (allocate l n) = l := by
  rw [allocate, cleanup_append_nones, cleanup_of_noTrail h]

theorem noTrail_append_some (l : List (Option Nat)) (i : Nat) : NoTrail (l ++ [some i]) := by
  simp [NoTrail]

/-! ### slotAt -/

theorem slotAt_append_nones (l : List (Option Nat)) (n : Nat) : slotAt (l ++ List.replicate n none) = slotAt l := by
  funext j
  simp only [slotAt, List.getElem?_append]
  split
  · rfl
  · rename_i h
    rw [List.getElem?_eq_none (by omega : l.length ≤ j)]
    simp [List.getElem?_replicate]
    split <;> rfl

@[simp] theorem slotAt_cleanup (l : List (Option Nat)) : slotAt (cleanup l) = slotAt l := by
  obtain ⟨n, hn⟩ := cleanup_spec l
  conv => rhs; rw [hn]
  rw [slotAt_append_nones]

@[simp] theorem slotAt_allocate (l : List (Option Nat)) (n : Int) : slotAt (allocate l n) = slotAt l :=
  slotAt_append_nones l _

theorem slotAt_of_length_le {l : List (Option Nat)} {j : Nat} (h : l.length ≤ j) : slotAt l j = none := by
  simp [slotAt, List.getElem?_eq_none h]

/-- With no trailing holes the length is the least bound of the occupied positions. -/
theorem noTrail_last_occupied {l : List (Option Nat)} (h : NoTrail l) (hl : l ≠ []) :
    slotAt l (l.length - 1) ≠ none := by
  have := List.getLast?_eq_getElem? (l := l)
  simp only [NoTrail, this] at h
  have hlt : l.length - 1 < l.length := by
    cases l with
    | nil => exact absurd rfl hl
    | cons _ _ => simp
  simp only [slotAt, List.getElem?_eq_getElem hlt] at h ⊢
  cases hv : l[l.length - 1] with
  | none => exact absurd (by rw [hv]) h
  | some v => simp

/-! ### pyIndex / indexOf? -/

theorem pyIndex_lt {n : Nat} {i : Int} {k : Nat} (h : pyIndex n i = some k) : k < n := by
  unfold pyIndex at h
  split at h
  · split at h <;> simp at h; omega
  · split at h <;> simp at h; omega

theorem pyIndex_nonneg {n : Nat} {i : Int} {k : Nat} (h : pyIndex n i = some k) (hi : 0 ≤ i) : k = i.toNat := by
  unfold pyIndex at h
  rw [if_pos hi] at h
  split at h <;> simp at h; omega

theorem pyIndex_neg {n : Nat} {i : Int} {k : Nat} (h : pyIndex n i = some k) (hi : i < 0) : (k : Int) = n + i := by
  unfold pyIndex at h
  rw [if_neg (by omega)] at h
  split at h <;> simp at h; omega

theorem pyIndex_none_nonneg {n : Nat} {i : Int} (h : pyIndex n i = none) (hi : 0 ≤ i) : n ≤ i.toNat := by
  unfold pyIndex at h
  rw [if_pos hi] at h
  split at h <;> simp at h; omega

theorem indexOf?_some {v : Option Nat} {l : List (Option Nat)} {k : Nat} (h : indexOf? v l = some k) :
    l[k]? = some v ∧ ∀ j < k, l[j]? ≠ some v := by
  induction l generalizing k with
  | nil => simp [indexOf?] at h
  | cons x xs ih =>
    unfold indexOf? at h
    split at h
    · rename_i hx
      simp at h; subst h; simp [hx]
    · rename_i hx
      cases h' : indexOf? v xs with
      | none => simp [h'] at h
      | some k' =>
        simp [h'] at h; subst h
        obtain ⟨h1, h2⟩ := ih h'
        refine ⟨by simpa using h1, ?_⟩
        intro j hj
        cases j with
        | zero => simpa using hx
        | succ j => simpa using h2 j (by omega)

theorem indexOf?_none {v : Option Nat} {l : List (Option Nat)} (h : indexOf? v l = none) : v ∉ l := by
  induction l with
  | nil => simp
  | cons x xs ih =>
    unfold indexOf? at h
    split at h
    · simp at h
    · rename_i hx
      cases h' : indexOf? v xs with
      | none => simp [ih h', Ne.symm hx]
      | some k' => simp [h'] at h

/-! ### splitting a list at a position; items of updated racks -/

theorem split_at {l : List (Option Nat)} {k : Nat} {v : Option Nat} (h : l[k]? = some v) :
    l = l.take k ++ v :: l.drop (k + 1) := by
  have hk : k < l.length := by
    rcases Nat.lt_or_ge k l.length with h' | h'
    · exact h'
    · rw [List.getElem?_eq_none h'] at h; cases h
  rw [List.getElem?_eq_getElem hk] at h
  have hv : l[k] = v := by simpa using h
  rw [← hv, ← List.drop_eq_getElem_cons hk, List.take_append_drop]

theorem lt_length_of_getElem? {l : List (Option Nat)} {k : Nat} {v : Option Nat} (h : l[k]? = some v) : k < l.length := by
  rcases Nat.lt_or_ge k l.length with h' | h'
  · exact h'
  · rw [List.getElem?_eq_none h'] at h; cases h

theorem set_eq_split {l : List (Option Nat)} {k : Nat} {v : Option Nat} (h : l[k]? = some v) (w : Option Nat) :
    l.set k w = l.take k ++ w :: l.drop (k + 1) := by
  rw [List.set_eq_take_append_cons_drop, if_pos (lt_length_of_getElem? h)]

theorem set_none_of_hole {l : List (Option Nat)} {k : Nat} (h : l[k]? = some none) : l.set k none = l := by
  rw [set_eq_split h]; exact (split_at h).symm

theorem set_set_none_of_hole {l : List (Option Nat)} {k : Nat} (h : l[k]? = some none) (i : Nat) :
    (l.set k (some i)).set k none = l := by
  rw [List.set_set, set_none_of_hole h]

theorem items_set_hole {l : List (Option Nat)} {k : Nat} (h : l[k]? = some none) (i : Nat) :
    IsInsertion i (items l) (items (l.set k (some i))) := by
  refine ⟨items (l.take k), items (l.drop (k + 1)), ?_, ?_⟩
  · conv => lhs; rw [split_at h]
    simp
  · rw [set_eq_split h]; simp

theorem items_set_none {l : List (Option Nat)} {k i : Nat} (h : l[k]? = some (some i)) :
    IsInsertion i (items (l.set k none)) (items l) := by
  refine ⟨items (l.take k), items (l.drop (k + 1)), ?_, ?_⟩
  · rw [set_eq_split h]; simp
  · conv => lhs; rw [split_at h]
    simp

theorem items_eraseIdx_some {l : List (Option Nat)} {k i : Nat} (h : l[k]? = some (some i)) :
    IsInsertion i (items (l.eraseIdx k)) (items l) := by
  refine ⟨items (l.take k), items (l.drop (k + 1)), ?_, ?_⟩
  · rw [List.eraseIdx_eq_take_drop_succ]; simp
  · conv => lhs; rw [split_at h]
    simp

theorem items_eraseIdx_none {l : List (Option Nat)} {k : Nat} (h : l[k]? = some none) :
    items (l.eraseIdx k) = items l := by
  conv => rhs; rw [split_at h]
  rw [List.eraseIdx_eq_take_drop_succ]; simp

/-! ### pyInsert -/

theorem pyInsert_eraseIdx {l : List (Option Nat)} {k : Nat} (h : k ≤ l.length) (v : Option Nat) :
    (pyInsert l k v).eraseIdx k = l := by
  have hlen : (l.take k).length = k := by simp [List.length_take]; omega
  rw [pyInsert, List.eraseIdx_append_of_length_le (by omega), hlen, Nat.sub_self]
  simp

theorem items_take_drop (l : List (Option Nat)) (k : Nat) : items (l.take k) ++ items (l.drop k) = items l := by
  rw [← items_append, List.take_append_drop]

@[simp] theorem items_pyInsert_none (l : List (Option Nat)) (k : Nat) : items (pyInsert l k none) = items l := by
  simp [pyInsert, items_take_drop]

theorem items_pyInsert_some (l : List (Option Nat)) (k i : Nat) :
    IsInsertion i (items l) (items (pyInsert l k (some i))) := by
  exact ⟨items (l.take k), items (l.drop k), (items_take_drop l k).symm, by simp [pyInsert]⟩

theorem pyInsert_length (l : List (Option Nat)) (v : Option Nat) : pyInsert l l.length v = l ++ [v] := by
  simp [pyInsert]

theorem noTrail_pyInsert_some {l : List (Option Nat)} (h : NoTrail l) (k i : Nat) : NoTrail (pyInsert l k (some i)) := by
  unfold NoTrail pyInsert at *
  rw [List.getLast?_append, List.getLast?_cons]
  cases hd : (l.drop k).getLast? with
  | none => simp
  | some x =>
    have : l.getLast? = some x := by
      rw [List.getLast?_drop] at hd
      split at hd
      · cases hd
      · exact hd
    simp only [Option.getD_some, Option.some_or]
    rw [this] at h
    simpa using h

theorem slotAt_pyInsert {l : List (Option Nat)} {k : Nat} (h : k ≤ l.length) (v : Option Nat) (j : Nat) :
    slotAt (pyInsert l k v) j = if j < k then slotAt l j else if j = k then v else slotAt l (j - 1) := by
  have hlen : (l.take k).length = k := by simp [List.length_take]; omega
  simp only [slotAt, pyInsert, List.getElem?_append, hlen]
  split
  · rename_i hj
    rw [List.getElem?_take_of_lt hj]
  · rename_i hj
    split
    · rename_i hjk; subst hjk; simp
    · rename_i hjk
      have : j - k = (j - k - 1) + 1 := by omega
      rw [this, List.getElem?_cons_succ, List.getElem?_drop]
      congr 2; omega

/-! ### NoTrail of updated racks -/

theorem noTrail_set_some {l : List (Option Nat)} {k : Nat} (h : NoTrail l ∨ k + 1 = l.length) (i : Nat) :
    NoTrail (l.set k (some i)) := by
  unfold NoTrail at *
  rw [List.getLast?_eq_getElem?, List.length_set, List.getElem?_set]
  split
  · split <;> simp
  · rename_i hk
    rcases h with h | h
    · rwa [List.getLast?_eq_getElem?] at h
    · omega

theorem allocate_length (l : List (Option Nat)) (n : Int) :
    (allocate l n).length = l.length + (n - l.length + 1).toNat := by simp [allocate]

theorem allocate_of_lt {l : List (Option Nat)} {n : Int} (h : n < l.length) : allocate l n = l := by
  have : (n - l.length + 1).toNat = 0 := by omega
  simp [allocate, this]

theorem allocate_getElem?_ge {l : List (Option Nat)} {n : Int} {k : Nat} (h1 : l.length ≤ k)
    (h2 : k < (allocate l n).length) : (allocate l n)[k]? = some none := by
  rw [allocate_length] at h2
  rw [allocate, List.getElem?_append_right h1, List.getElem?_replicate]
  rw [if_pos (by omega)]

/-! ### slotAt of updated racks -/

theorem slotAt_set {l : List (Option Nat)} {k : Nat} (hk : k < l.length) (v : Option Nat) (j : Nat) :
    slotAt (l.set k v) j = if j = k then v else slotAt l j := by
  simp only [slotAt, List.getElem?_set]
  by_cases hj : j = k
  · subst hj; simp [hk]
  · simp [hj, Ne.symm hj]

theorem slotAt_append_singleton (l : List (Option Nat)) (v : Option Nat) (j : Nat) :
    slotAt (l ++ [v]) j = if j = l.length then v else slotAt l j := by
  simp only [slotAt, List.getElem?_append]
  by_cases hj : j < l.length
  · simp [hj, Nat.ne_of_lt hj]
  · by_cases he : j = l.length
    · simp [he]
    · have : j - l.length = (j - l.length - 1) + 1 := by omega
      rw [if_neg hj, if_neg he, this]
      simp [List.getElem?_eq_none (by omega : l.length ≤ j)]

theorem slotAt_eraseIdx (l : List (Option Nat)) (k j : Nat) :
    slotAt (l.eraseIdx k) j = if j < k then slotAt l j else slotAt l (j + 1) := by
  simp only [slotAt, List.getElem?_eraseIdx]
  split <;> rfl

theorem slotAt_eq_none_of_getElem? {l : List (Option Nat)} {k : Nat} (h : l[k]? = some none) : slotAt l k = none := by
  simp [slotAt, h]

theorem slotAt_ne_none_of_not_hole {l : List (Option Nat)} {j : Nat} (hj : j < l.length) (h : l[j]? ≠ some none) :
    slotAt l j ≠ none := by
  rw [List.getElem?_eq_getElem hj] at h
  simp only [slotAt, List.getElem?_eq_getElem hj]
  cases hv : l[j] with
  | none => rw [hv] at h; exact absurd rfl h
  | some x => simp

end Eos.Containers
