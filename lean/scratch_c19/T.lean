import EosModel.ModInfo
import EosGen.ModInfoTable
open Eos.ModInfo EosGen.ModInfoTable
theorem c00 : chunkOk chunk00 = true := by decide +kernel
theorem c01 : chunkOk chunk01 = true := by decide +kernel
theorem c02 : chunkOk chunk02 = true := by decide +kernel
theorem c03 : chunkOk chunk03 = true := by decide +kernel
theorem c04 : chunkOk chunk04 = true := by decide +kernel
theorem c05 : chunkOk chunk05 = true := by decide +kernel
theorem c06 : chunkOk chunk06 = true := by decide +kernel
theorem c07 : chunkOk chunk07 = true := by decide +kernel
theorem c08 : chunkOk chunk08 = true := by decide +kernel
theorem c09 : chunkOk chunk09 = true := by decide +kernel
theorem c10 : chunkOk chunk10 = true := by decide +kernel
theorem c11 : chunkOk chunk11 = true := by decide +kernel
theorem c12 : chunkOk chunk12 = true := by decide +kernel
theorem c13 : chunkOk chunk13 = true := by decide +kernel
theorem c14 : chunkOk chunk14 = true := by decide +kernel
theorem c15 : chunkOk chunk15 = true := by decide +kernel
